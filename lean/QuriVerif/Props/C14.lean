import QuriVerif.Proof.C14
/-
  C14 — Electron-integral transformations preserve energies.

  Property theorems only (helper lemmas: Proof/C14.lean; model: Model/C14.lean).
  `R` is an arbitrary commutative ring (the complex numbers in the application), tensors are total functions
  on index tuples, sums are over lists (`sumOver l f = Σ_{i ∈ l} f i`, `sumTo n f = Σ_{i < n} f i`),
  `conj : R → R` is an arbitrary function (complex conjugation in the application: nothing about it is used).

  What is proved for ALL inputs: the index selection (both branches, the errors, the loop), the spatial→spin
  expansion loops, the transpose conventions, the AO→MO contraction, the three effective-core formulas, and —
  from these — that every Slater determinant compatible with the active space has the same energy (Slater–Condon
  diagonal rule) under the reduced Hamiltonian as under the full one.

  PARTIAL (not derived in Lean; validated on the real code against oracle/slater.py every run): off-diagonal
  matrix elements / spectra of the reduced Hamiltonian, orbital-rotation invariance of full-space spectra, the
  qubit Hamiltonian's spectrum, the PySCF-backed path.
-/
namespace QV.Props.C14
open QV.C14

/-! ## core / active index selection (`get_core_and_active_orbital_indices`) -/

/-- The function raises exactly when the number of core electrons is odd, or a non-empty explicit list has the
    wrong length; it never raises anything but `ValueError`. -/
theorem core_active_raises_iff (a o e : Int) (act : Option (List Int)) :
    (∃ err, coreAndActive a o e act = .error err)
      ↔ ((e - a) % 2 = 1 ∨ ∃ l, act = some l ∧ l ≠ [] ∧ (l.length : Int) ≠ o) := by
  unfold coreAndActive
  by_cases hp : (e - a) % 2 = 1
  · simp [hp]
  · rcases act with _ | l
    · simp [hp]
    · rcases l with _ | ⟨x, xs⟩
      · simp [hp]
      · by_cases hl : (xs.length : Int) + 1 = o
        · simp [hp, hl]
        · simp only [hp, if_false, ne_eq, List.length_cons, Nat.cast_add, Nat.cast_one, hl, not_false_eq_true,
            if_true, false_or]
          exact ⟨fun _ => ⟨x :: xs, rfl, by simp, by simpa using hl⟩, fun _ => ⟨_, rfl⟩⟩

theorem core_active_only_value_error (a o e : Int) (act : Option (List Int)) (err : Err)
    (h : coreAndActive a o e act = .error err) : err = .value := by
  unfold coreAndActive at h
  by_cases hp : (e - a) % 2 = 1
  · simp [hp] at h; exact h.symm
  · rcases act with _ | l
    · simp [hp] at h
    · rcases l with _ | ⟨x, xs⟩
      · simp [hp] at h
      · by_cases hl : (xs.length : Int) + 1 = o
        · simp [hp, hl] at h
        · simp [hp, hl] at h; exact h.symm

/-- Default branch (`None` or an empty sequence), `k = (n_electrons − n_active_ele) / 2 ≥ 0` core orbitals:
    core = `[0, k)`, active = `[k, k + n_active_orb)`. -/
theorem core_active_default (a e : Int) (k o : Nat) (act : Option (List Int))
    (hact : act = none ∨ act = some []) (hk : e - a = 2 * (k : Int)) :
    coreAndActive a (o : Int) e act
      = .ok (castL (List.range k), (List.range o).map fun i : Nat => (k : Int) + (i : Int)) := by
  have hp : ¬ (e - a) % 2 = 1 := by omega
  have hd : (e - a) / 2 = (k : Int) := by omega
  unfold coreAndActive
  rcases hact with rfl | rfl <;> simp [hp, hd, pyRange, castL]

example : coreAndActive 2 2 6 none = .ok (castL (List.range 2), [2, 3]) := by decide

/-- … in particular the two lists are disjoint, have the right sizes and together are `[0, k + n_active_orb)`. -/
theorem core_active_default_partition (k o : Nat) (x : Int) :
    (x ∈ castL (List.range k) ↔ 0 ≤ x ∧ x < k)
      ∧ (x ∈ ((List.range o).map fun i : Nat => (k : Int) + (i : Int)) ↔ (k : Int) ≤ x ∧ x < k + o)
      ∧ (castL (List.range k)).length = k
      ∧ ((List.range o).map fun i : Nat => (k : Int) + (i : Int)).length = o := by
  refine ⟨?_, ?_, by simp [castL], by simp⟩
  · simp only [castL, List.mem_map, List.mem_range]
    constructor
    · rintro ⟨i, hi, rfl⟩; omega
    · rintro ⟨h0, h1⟩; exact ⟨x.toNat, by omega, by omega⟩
  · simp only [List.mem_map, List.mem_range]
    constructor
    · rintro ⟨i, hi, rfl⟩; omega
    · rintro ⟨h0, h1⟩; exact ⟨(x - k).toNat, by omega, by omega⟩

/-- `core_active_spec`, explicit active list `l` (non-empty, of the announced length), `k ≥ 0` core orbitals — at full
    strength, for every list (sorted or not, with or without duplicates, any integers):
    the returned core is the list of the FIRST `k` orbitals that are not active, ascending: it has exactly `k`
    entries (pigeonhole: the scan range `[0, k + len l)` always contains `k` non-active orbitals), is disjoint from
    the active list, and every non-active orbital below a core orbital is itself core. -/
theorem core_active_explicit (a o e : Int) (l : List Int) (k : Nat)
    (hl : l ≠ []) (hlen : (l.length : Int) = o) (hk : e - a = 2 * (k : Int)) :
    ∃ core : List Nat,
      coreAndActive a o e (some l) = .ok (castL core, l)
        ∧ core = (nonActive l (k + l.length)).take k
        ∧ core.length = k
        ∧ core.Pairwise (· < ·)
        ∧ (∀ c ∈ core, ¬ (c : Int) ∈ l)
        ∧ (∀ c ∈ core, ∀ j : Nat, j < c → ¬ (j : Int) ∈ l → j ∈ core) := by
  have hp : ¬ (e - a) % 2 = 1 := by omega
  have hd : (e - a) / 2 = (k : Int) := by omega
  have hge := nonActive_length_ge l k l.length rfl
  refine ⟨(nonActive l (k + l.length)).take k, ?_, rfl, ?_, ?_, ?_, ?_⟩
  · obtain ⟨x, xs, rfl⟩ := List.exists_cons_of_ne_nil hl
    unfold coreAndActive
    have hrange : pyRange ((k : Int) + o) = List.range (k + (x :: xs).length) := by
      unfold pyRange; rw [← hlen]; congr 1
    simp only [hp, if_false, hd, hlen, ne_eq, not_true_eq_false, hrange]
    congr 2
    rw [fillCore_eq k _ _ [] (by simp)]
    simp [nonActive]
  · rw [List.length_take]; omega
  · exact List.Pairwise.sublist (List.take_sublist _ _) (nonActive_sorted _ _)
  · intro c hc
    exact (mem_nonActive.1 (List.mem_of_mem_take hc)).2
  · intro c hc j hj hjl
    have hcN := (mem_nonActive.1 (List.mem_of_mem_take hc)).1
    exact mem_take_of_lt (nonActive_sorted _ _) hc (mem_nonActive.2 ⟨by omega, hjl⟩) hj

example : ∃ core : List Nat, coreAndActive 4 2 6 (some [0, 2]) = .ok (castL core, [0, 2]) ∧ core = [1] :=
  ⟨[1], by decide, rfl⟩

/-- regression of the repaired defect (fix 7a862a3; before it the `break` test ran only after the first append and
    this input returned core = [0]): no core electrons, active orbitals [1, 2] — the core is empty. -/
theorem core_active_zero_core_regression :
    coreAndActive 2 2 2 (some [1, 2]) = .ok ([], [1, 2]) := by decide

/-- an odd number of core electrons / a list of the wrong length are rejected -/
example : coreAndActive 2 2 5 none = .error .value ∧ coreAndActive 2 3 4 (some [0, 2]) = .error .value := by decide

/-- `convert_to_spin_orbital_indices`: spatial orbital `o` ↦ spin orbitals `2o` (alpha), `2o + 1` (beta). -/
theorem spin_indices_spec (l : List Int) (P : Int) :
    P ∈ spinIndices l ↔ ∃ o ∈ l, P = 2 * o ∨ P = 2 * o + 1 := by
  simp [spinIndices, List.mem_flatMap]

theorem spin_indices_length (l : List Int) : (spinIndices l).length = 2 * l.length := by
  induction l with
  | nil => rfl
  | cons x l ih => simp [spinIndices, List.flatMap_cons] at ih ⊢; omega

/-- `ActiveSpaceMolecularOrbitals.__init__` accepts exactly when the seven assertions hold; for an accepted
    active space the electron and orbital book-keeping adds up. -/
theorem consistency_spec (m : MO) (a : AS) (h : mkASMO m a = .ok ()) :
    2 * nCoreOrb m a + nEleAlpha m a + nEleBeta m a = m.nEle
      ∧ nCoreOrb m a + a.nActOrb + nVirOrb m a = m.nSpatial
      ∧ 0 ≤ nCoreOrb m a ∧ 0 ≤ nVirOrb m a
      ∧ 0 ≤ nEleBeta m a ∧ nEleBeta m a ≤ a.nActOrb ∧ 0 ≤ nEleAlpha m a ∧ nEleAlpha m a ≤ a.nActOrb := by
  unfold mkASMO at h
  by_cases hc : consistent m a = true
  · simp only [consistent, Bool.and_eq_true, decide_eq_true_eq] at hc
    obtain ⟨⟨⟨⟨⟨⟨h1, h2⟩, h3⟩, h4⟩, h5⟩, h6⟩, h7⟩ := hc
    simp only [nCoreOrb, nVirOrb, nEleAlpha, nEleBeta, nCoreEle] at *
    refine ⟨by omega, by omega, by omega, by omega, by omega, by omega, by omega, by omega⟩
  · simp [hc] at h

example : mkASMO ⟨4, 0, 4⟩ ⟨2, 2, none⟩ = .ok () := by decide

/-! ## spatial → spin expansion -/

/-- `spatial_mo_1e_int_to_spin_mo_1e_int`: raises `IndexError` exactly when `n_spin_orb // 2` exceeds the array
    dimension; otherwise the loop produces `hs[P, Q] = δ_{spin P, spin Q} h[P/2, Q/2]` on the first
    `2·(n_spin_orb // 2)` spin orbitals and zero elsewhere — for every array size and every `n_spin_orb`. -/
theorem spin_expand_1e_spec {α : Type} [Zero α] (nso m : Nat) (h : T2 α) :
    (m < nso / 2 → spin1 nso m h = .error .index)
      ∧ (nso / 2 ≤ m → ∃ T, spin1 nso m h = .ok T ∧ ∀ P Q,
          T P Q = if P / 2 < nso / 2 ∧ Q / 2 < nso / 2 ∧ P % 2 = Q % 2 then h (P / 2) (Q / 2) else 0) := by
  unfold spin1
  refine ⟨fun hlt => by rw [if_pos (by omega)], fun hle => ?_⟩
  rw [if_neg (by omega)]
  exact ⟨_, rfl, fun P Q => spin1Arr_eq _ h P Q⟩

/-- the same in the `2p + σ` form: `hs[2p+σ, 2q+τ] = δ_{στ} h[p, q]` -/
theorem spin_expand_1e_delta {α : Type} [Zero α] (m : Nat) (h : T2 α) (p q σ τ : Nat)
    (hp : p < m) (hq : q < m) (hσ : σ < 2) (hτ : τ < 2) :
    spin1Arr (2 * m / 2) h (2 * p + σ) (2 * q + τ) = if σ = τ then h p q else 0 := by
  rw [spin1Arr_eq]
  have e1 : (2 * p + σ) / 2 = p := by omega
  have e2 : (2 * q + τ) / 2 = q := by omega
  have e3 : ((2 * p + σ) % 2 = (2 * q + τ) % 2) ↔ σ = τ := by omega
  have e4 : 2 * m / 2 = m := by omega
  simp only [e1, e2, e3, e4, hp, hq, true_and]

/-- `spatial_mo_2e_int_to_spin_mo_2e_int`: the four assignment patterns of the loop are exactly spin conservation
    in the code's (OpenFermion) ordering: `gs[P,Q,R,S] = δ_{spin P, spin S} δ_{spin Q, spin R} g[P/2,Q/2,R/2,S/2]`. -/
theorem spin_expand_2e_spec {α : Type} [Zero α] (nso m : Nat) (g : T4 α) :
    (m < nso / 2 → spin2 nso m g = .error .index)
      ∧ (nso / 2 ≤ m → ∃ T, spin2 nso m g = .ok T ∧ ∀ P Q R S,
          T P Q R S = if P / 2 < nso / 2 ∧ Q / 2 < nso / 2 ∧ R / 2 < nso / 2 ∧ S / 2 < nso / 2
                          ∧ P % 2 = S % 2 ∧ Q % 2 = R % 2
                      then g (P / 2) (Q / 2) (R / 2) (S / 2) else 0) := by
  unfold spin2
  refine ⟨fun hlt => by rw [if_pos (by omega)], fun hle => ?_⟩
  rw [if_neg (by omega)]
  exact ⟨_, rfl, fun P Q R S => spin2Arr_eq _ g P Q R S⟩

theorem spin_expand_2e_delta {α : Type} [Zero α] (m : Nat) (g : T4 α) (p q r s σ τ μ ν : Nat)
    (hp : p < m) (hq : q < m) (hr : r < m) (hs : s < m) (hσ : σ < 2) (hτ : τ < 2) (hμ : μ < 2) (hν : ν < 2) :
    spin2Arr (2 * m / 2) g (2 * p + σ) (2 * q + τ) (2 * r + μ) (2 * s + ν)
      = if σ = ν ∧ τ = μ then g p q r s else 0 := by
  rw [spin2Arr_eq]
  have e1 : (2 * p + σ) / 2 = p := by omega
  have e2 : (2 * q + τ) / 2 = q := by omega
  have e3 : (2 * r + μ) / 2 = r := by omega
  have e4 : (2 * s + ν) / 2 = s := by omega
  have e5 : ((2 * p + σ) % 2 = (2 * s + ν) % 2) ↔ σ = ν := by omega
  have e6 : ((2 * q + τ) % 2 = (2 * r + μ) % 2) ↔ τ = μ := by omega
  have e7 : 2 * m / 2 = m := by omega
  simp only [e1, e2, e3, e4, e5, e6, e7, hp, hq, hr, hs, true_and]

example : spin2Arr (2 * 2 / 2) (fun p q r s => (1000 * p + 100 * q + 10 * r + s : Int)) 3 0 0 3 = 1001 := by decide

/-! ## transposes and the AO → MO contraction -/

/-- what the two `transpose` calls of `to_spatial_mo2int` do to the indices
    (`transpose(0,3,1,2)`: physicist → chemist; `transpose(0,2,3,1)`: chemist → physicist, also used on the PySCF
    side) -/
theorem transpose_spec {α : Type} (t : T4 α) (i0 i1 i2 i3 : Nat) :
    transposeAx 0 3 1 t i0 i1 i2 i3 = t i0 i2 i3 i1 ∧ transposeAx 0 2 3 t i0 i1 i2 i3 = t i0 i3 i1 i2 := by
  constructor <;> simp [transposeAx]

/-- the two conventions changes are mutually inverse -/
theorem transpose_roundtrip {α : Type} (t : T4 α) :
    transposeAx 0 2 3 (transposeAx 0 3 1 t) = t ∧ transposeAx 0 3 1 (transposeAx 0 2 3 t) = t := by
  constructor <;> (funext i0 i1 i2 i3; simp [transposeAx])

section Ring
variable {R : Type} [CommRing R]

/-- `to_spatial_mo1int`: `h'[p,q] = Σ_a Σ_b conj(C[a,p]) h[a,b] C[b,q]` -/
theorem ao2mo_1e_spec (conj : R → R) (n : Nat) (C h : T2 R) (p q : Nat) :
    ao2mo1 conj n C h p q = sumTo n fun a => sumTo n fun b => conj (C a p) * h a b * C b q :=
  ao2mo1_eq conj n C h p q

/-- `to_spatial_mo2int`, unconditionally: the four `tensordot`s and two `transpose`s compute
    `Σ conj(C[d,p]) C[c,s] conj(C[b,q]) C[a,r] A[a,c,d,b]`. -/
theorem ao2mo_2e_formula (conj : R → R) (n : Nat) (C : T2 R) (A : T4 R) (p q r s : Nat) :
    ao2mo2 conj n C A p q r s
      = sumTo n fun d => sumTo n fun c => sumTo n fun b => sumTo n fun a =>
          conj (C d p) * C c s * conj (C b q) * C a r * A a c d b :=
  ao2mo2_eq conj n C A p q r s

/-- … which is the physicist-ordered contraction `g'[p,q,r,s] = Σ conj(C[w,p]) conj(C[x,q]) C[y,r] C[z,s] A[w,x,y,z]`.
    PARTIAL: needs the electron-repulsion symmetry `A[w,x,y,z] = A[y,z,w,x]` of the AO tensor (true for real
    atomic orbitals — the non-relativistic case the file is for; for complex AO integrals the code contracts the
    conjugated tensor). -/
theorem ao2mo_2e_spec_partial (conj : R → R) (n : Nat) (C : T2 R) (A : T4 R)
    (hsym : ∀ w x y z, A w x y z = A y z w x) (p q r s : Nat) :
    ao2mo2 conj n C A p q r s
      = sumTo n fun w => sumTo n fun x => sumTo n fun y => sumTo n fun z =>
          conj (C w p) * conj (C x q) * C y r * C z s * A w x y z :=
  ao2mo2_spec conj n C A hsym p q r s

example : ∀ w x y z : Nat, (fun w x y z => ((w + y) * (x + z) : Int)) w x y z
    = (fun w x y z => ((w + y) * (x + z) : Int)) y z w x := by intro w x y z; simp; ring

/-! ## effective core energy and effective integrals -/

/-- the three numpy expressions (`np.ix_` selections, `trace(axis1, axis2)` choices, the `2·` and `−1·` factors)
    in the code's index convention `g[p,q,r,s] = (ps|qr)`:
      `E_eff = E + 2 Σ_i h_ii + Σ_ij (2 g[i,j,j,i] − g[i,j,i,j])`            (i, j over the core list)
      `h_eff[u,v] = h[a_u,a_v] + 2 Σ_i g[i,a_u,a_v,i] − Σ_i g[i,a_u,i,a_v]`   (a = active list)
      `g_eff[t,u,v,w] = g[a_t,a_u,a_v,a_w]`
    for every core list and every in-range active list (no disjointness, order or duplicate-freeness needed). -/
theorem eff_core_formulas (ec : R) (h : T2 R) (g : T4 R) (n : Nat) (core act : List Nat)
    (hact : ∀ a ∈ act, a < n) :
    effCoreEnergy ec h g core
        = ec + (2 * sumOver core (fun i => h i i)
                + sumOver core (fun i => sumOver core fun j => 2 * g i j j i - g i j i j))
      ∧ (∀ u v, u < act.length → v < act.length →
          effOneBody n h g core act u v
            = h (act.getD u 0) (act.getD v 0)
              + (2 * sumOver core (fun i => g i (act.getD u 0) (act.getD v 0) i)
                 - sumOver core (fun i => g i (act.getD u 0) i (act.getD v 0))))
      ∧ (∀ t u v w, effTwoBody g act t u v w
            = g (act.getD t 0) (act.getD u 0) (act.getD v 0) (act.getD w 0)) := by
  refine ⟨effCoreEnergy_eq ec h g core, fun u v hu hv => ?_, fun t u v w => rfl⟩
  exact effOneBody_eq n h g core act u v (getD_lt_of_forall hact hu) (getD_lt_of_forall hact hv)

example : ∀ a ∈ [1, 2], a < 3 := by decide

/-! ## determinant energies -/

/-- **Every Slater determinant compatible with the active space has the same energy under the reduced Hamiltonian
    (effective core energy included) as under the full Hamiltonian.**

    `s` = full-space spatial integrals (dimension `s.dim`), `core`/`act` = in-range index lists (as returned by
    `get_core_and_active_orb`), `S` = any list of active spin orbitals (positions `U < 2·len act`; occupation of the
    active register), `fullDet core act S` = the full-space determinant (core doubly occupied, `S` lifted through
    `U ↦ 2·act[U/2] + U%2`).  Both Hamiltonians are assembled exactly as the code does: spatial→spin expansion loops,
    then `get_fermionic_hamiltonian` with the factor `i2 = 1/2` on the two-body tensor; the energy is the
    Slater–Condon diagonal rule `detEnergy` for `InteractionOperator`'s convention (validated against the
    Fock-space oracle by the harness).  Needs only the particle-exchange symmetry `g[p,q,r,s] = g[q,p,s,r]`. -/
theorem det_energy_preserved (s : ESet R) (i2 : R) (h2 : 2 * i2 = 1) (core act S : List Nat)
    (hsym : ∀ p q r t, s.g p q r t = s.g q p t r)
    (hcore : ∀ i ∈ core, i < s.dim) (hact : ∀ a ∈ act, a < s.dim) (hS : ∀ U ∈ S, U < 2 * act.length) :
    ∃ red, activeSpaceSpatialIdx s (castL core) (castL act) = .ok red ∧
      detEnergy (fermionicHamiltonian (fun x => i2 * x) (toSpinSet s)).const
          (fermionicHamiltonian (fun x => i2 * x) (toSpinSet s)).h
          (fermionicHamiltonian (fun x => i2 * x) (toSpinSet s)).g (fullDet core act S)
        = detEnergy (fermionicHamiltonian (fun x => i2 * x) (toSpinSet red)).const
            (fermionicHamiltonian (fun x => i2 * x) (toSpinSet red)).h
            (fermionicHamiltonian (fun x => i2 * x) (toSpinSet red)).g S := by
  refine ⟨_, activeSpaceSpatialIdx_castL s core act hcore hact, ?_⟩
  simp only [fermionicHamiltonian, toSpinSet, Nat.mul_div_cancel_left _ (by decide : 0 < 2)]
  exact detEnergy_active_space s.const i2 h2 s.h s.g s.dim core act S hsym hcore hact hS

/-- the hypotheses are satisfiable: ℚ with `i2 = 1/2`, a symmetric two-body tensor, one core and two active orbitals -/
example : (2 : ℚ) * (1 / 2) = 1 ∧ (∀ p q r t : Nat, (fun p q r t => ((p + t) * (q + r) : ℚ)) p q r t
      = (fun p q r t => ((p + t) * (q + r) : ℚ)) q p t r)
    ∧ (∀ i ∈ [0], i < 3) ∧ (∀ a ∈ [1, 2], a < 3) ∧ (∀ U ∈ [0, 3], U < 2 * [1, 2].length) := by
  refine ⟨by norm_num, fun p q r t => by simp; ring, by decide, by decide, by decide⟩

/-- the pipeline function composes the index selection with the formulas: whenever `get_core_and_active_orb`
    returns in-range lists, `get_active_space_spin_integrals_from_mo_eint` is the spin expansion of the effective
    integrals (so `det_energy_preserved` speaks about the function's actual output). -/
theorem pipeline_spec {α : Type} [Zero α] [Add α] [Sub α] [Mul α] (m : MO) (a : AS) (s : ESet α)
    (core act : List Nat)
    (hidx : getCoreAndActiveOrb m a = .ok (castL core, castL act))
    (hcore : ∀ i ∈ core, i < s.dim) (hact : ∀ i ∈ act, i < s.dim) :
    activeSpaceSpinFromMO m a s
      = .ok (toSpinSet ⟨effCoreEnergy s.const s.h s.g core, effOneBody s.dim s.h s.g core act,
                        effTwoBody s.g act, act.length⟩) := by
  unfold activeSpaceSpinFromMO activeSpaceSpatialFromMO
  rw [hidx]
  simp only [activeSpaceSpatialIdx_castL s core act hcore hact]
  rfl

example : getCoreAndActiveOrb ⟨4, 0, 3⟩ ⟨2, 2, none⟩ = .ok (castL [0], castL [1, 2]) := by decide

/-- the composite entry points are, by definition, these compositions of the stages above (the line-protocol driver
    evaluates them stage by stage) -/
theorem pipeline_compositions {α : Type} [Zero α] [Add α] [Sub α] [Mul α] (conj : α → α) (C : T2 α) (m : MO) (a : AS)
    (s : ESet α) :
    fullSpaceSpinFromAO conj C s = toSpinSet (fullSpaceSpatialFromAO conj C s)
      ∧ activeSpaceSpinFromMO m a s = (activeSpaceSpatialFromMO m a s).map toSpinSet
      ∧ activeSpaceSpatialFromAO conj C m a s = activeSpaceSpatialFromMO m a (fullSpaceSpatialFromAO conj C s)
      ∧ activeSpaceSpinFromAO conj C m a s
          = (activeSpaceSpatialFromMO m a (fullSpaceSpatialFromAO conj C s)).map toSpinSet :=
  ⟨rfl, rfl, rfl, rfl⟩

end Ring
end QV.Props.C14
