import QuriVerif.Proof.C05Mat
import QuriVerif.Proof.C05Hist
import QuriVerif.Proof.C05Bits
import QuriVerif.Proof.C05Route
import QuriVerif.Generated.C05Tables
/-
  C05 — Operator arithmetic is a faithful image of matrix arithmetic.

  Specification: `actD` (Model/C05.lean) — a dense Pauli string maps a basis state |b> to
  i^e |b'>, little endian; `amp op m n = <m|op|n>` is its linear extension.  Everything below is
  about the *transcribed* algorithms of pauli.py / operator.py / sparse.py / representation
  (association lists with Python dict / frozenset semantics, exact Gaussian-integer coefficients)
  and holds for all labels, operators, qubit indices, basis states and histories.

  Source tie: the rows of `_pauli_products_map`, the 2×2 matrices of sparse.py and the per-letter
  updates of `pauli_label_to_bsv` are translated from the working tree (Generated/C05Tables.lean,
  one kernel-checked obligation per row); the algorithms are tied by the correspondence harness.

  Findings on the unchanged tree (model follows the code, witness theorems below):
   * `isub-self-alias`      `op -= op` raises RuntimeError and leaves `op` partially updated;
   * `str-roundtrip-identity` `str(PAULI_IDENTITY) = "I"` is rejected by `pauli_label`.
  Not a finding, but a hypothesis of the label theorems: the pair / index-list constructors accept two
  different Paulis on one index (`Valid` fails); `mkLabel_valid_iff` states exactly when.
-/
namespace QV.Props.C05
open QV.C05

/-! ## Pauli products -/

/-- the single-qubit table is the composition of the single-qubit actions (finite: all 4·4·2 cases);
    `Generated.C05Tables.row_*_ok` tie `_pauli_products_map` of the source to this table -/
theorem table_is_action (p q : P1) (b : Bool) :
    (P1.mul p q).1.flips = (p.flips != q.flips) ∧
    (q.ph b + p.ph (b != q.flips)) % 4 = ((P1.mul p q).2 + (P1.mul p q).1.ph b) % 4 :=
  act1_mul p q b

/-- homomorphism for dense strings of every length (also unequal lengths) on every basis state:
    acting with Q then P = acting with the entry-wise product, phases add (mod 4) -/
theorem act_mul (ps qs : List P1) (b : Nat) :
    (actD ps (actD qs b).2).2 = (actD (mulD ps qs).1 b).2 ∧
    ((actD qs b).1 + (actD ps (actD qs b).2).1) % 4 = ((mulD ps qs).2 + (actD (mulD ps qs).1 b).1) % 4 :=
  actD_mul ps qs b

/-- `pauli_product` (dict of pauli1, loop over pauli2, delete on equal letters) computes the
    point-wise product of the two finite maps, with the summed phase, and returns a valid label -/
theorem pauli_product_pointwise {p q : Label} (hp : Valid p) (hq : Valid q) :
    Valid (pauliProduct p q).1 ∧
    (∀ j, lookup (pauliProduct p q).1 j = (P1.mul (lookup p j) (lookup q j)).1) ∧
    ∀ N, bound q ≤ N →
      (pauliProduct p q).2 % 4 = psum (fun j => (P1.mul (lookup p j) (lookup q j)).2) 0 N % 4 :=
  pauliProduct_spec hp hq

/-- … which is the dense product of the dense forms (the tie from the algorithm to the mathematics) -/
theorem pauli_product_dense {p q : Label} (hp : Valid p) (hq : Valid q) {N : Nat}
    (h1 : bound p ≤ N) (h2 : bound q ≤ N) :
    toDense (pauliProduct p q).1 N = (mulD (toDense p N) (toDense q N)).1 ∧
    (pauliProduct p q).2 % 4 = (mulD (toDense p N) (toDense q N)).2 % 4 :=
  pauliProduct_dense hp hq h1 h2

/-- `pauli_product(P, Q) = (R, i^k)` means `P·Q = i^k R` as operators: for every basis state,
    arbitrary overlaps of the supports -/
theorem pauli_product_act {p q : Label} (hp : Valid p) (hq : Valid q) (b : Nat) :
    (actL p (actL q b).2).2 = (actL (pauliProduct p q).1 b).2 ∧
    ((actL q b).1 + (actL p (actL q b).2).1) % 4
      = ((pauliProduct p q).2 + (actL (pauliProduct p q).1 b).1) % 4 :=
  pauliProduct_act hp hq b

example : Valid [(0, .X), (2, .Y), (5, .Z)] ∧ Valid [(2, .Z), (5, .Z), (7, .X)] := by decide
example : pauliProduct [(0, .X), (2, .Y), (5, .Z)] [(2, .Z), (5, .Z), (7, .X)] = ([(0, .X), (2, .X), (7, .X)], 1) := by decide

/-! ## Labels: equality, hashing, strings, interning -/

/-- equal Pauli strings are equal labels: the canonical form depends only on the *set* of pairs —
    not on order, multiplicity or construction route (Python: frozenset equality and hash) -/
theorem label_eq_iff (a b : List (Nat × P1)) : canon a = canon b ↔ ∀ x, x ∈ a ↔ x ∈ b :=
  canon_eq_iff a b

/-- `PauliLabel(pairs)` / `pauli_label(pairs)`: any reordering of the pairs gives the same result -/
theorem label_order_irrelevant {a b : List (Nat × Nat)} (h : a.Perm b) : mkLabel a = mkLabel b :=
  mkLabel_perm h

/-- a valid label is determined by the finite map qubit ↦ Pauli it denotes -/
theorem label_determined_by_map {l1 l2 : Label} (h1 : Valid l1) (h2 : Valid l2)
    (h : ∀ j, lookup l1 j = lookup l2 j) : l1 = l2 :=
  valid_ext h1 h2 h

/-- all routes agree: pairs in any order, index/id lists and the string form give back the label -/
theorem routes_agree {l : Label} (h : Valid l) (hne : l ≠ []) {ps : List (Nat × Nat)}
    (hp : ps.Perm (l.map fun e => (e.1, e.2.code))) :
    mkLabel ps = .ok l ∧ fromLists (l.map (·.1)) (l.map (·.2.code)) = .ok l ∧ fromStr (toStr l) = .ok l :=
  ⟨mkLabel_of_valid h hp, fromLists_of_valid h, fromStr_toStr h hne⟩

/-- what the pair constructors accept: always a canonical identity-free set; a valid Pauli label
    exactly when no index carries two different Paulis (the constructor does not check this) -/
theorem pairs_constructor_validity {ps : List (Nat × Nat)} {l : Label} (h : mkLabel ps = .ok l) :
    Canonical l ∧ (∀ e ∈ l, e.2 ≠ .I) ∧ (Valid l ↔ Fun l) :=
  mkLabel_valid_iff h

example : mkLabel [(0, 1), (0, 2)] = .ok [(0, .X), (0, .Y)] ∧ ¬ Valid [(0, .X), (0, .Y)] := ⟨rfl, by decide⟩

/-- the string form round-trips.  `_partial`: the identity label is excluded — its string "I" is not
    accepted by the parser (finding `str-roundtrip-identity`, witness below) -/
theorem str_roundtrip_partial {l : Label} (h : Valid l) (hne : l ≠ []) : fromStr (toStr l) = .ok l :=
  fromStr_toStr h hne

/-- witness: `pauli_label(str(PAULI_IDENTITY))` raises "Invalid Pauli label: 'I'" -/
theorem str_roundtrip_identity_witness : Valid [] ∧ fromStr (toStr []) = .error .invalidTerm :=
  ⟨by decide, rfl⟩

example : Valid [(3, .Z), (10, .X)] ∧ ([(3, .Z), (10, .X)] : Label) ≠ [] := by decide

/-- whatever string the parser accepts, the result is a valid label -/
theorem parser_delivers_valid {s : List Char} {l : Label} (h : fromStr s = .ok l) : Valid l :=
  fromStr_valid h

/-- the documented accepted / rejected examples of `_parse_pauli_label_str` -/
theorem parser_examples :
    fromStr "X0 Y1 Z2".toList = .ok [(0, .X), (1, .Y), (2, .Z)] ∧
    fromStr "X 0 Y 1 Z 2".toList = .ok [(0, .X), (1, .Y), (2, .Z)] ∧
    fromStr "Z2\tX0\n Y 01".toList = .ok [(0, .X), (1, .Y), (2, .Z)] ∧
    fromStr "X0 Y1 A2".toList = .error .invalidTerm ∧
    fromStr "X0Y1Z2".toList = .error .invalidTerm ∧
    fromStr "X0 Y1 Z1".toList = .error .duplicateIndex ∧
    fromStr "X0 Y Z2".toList = .error .invalidTerm ∧
    fromStr "X0 1 Z2".toList = .error .invalidTerm ∧
    fromStr "".toList = .error .noLabel ∧
    fromStr "  ".toList = .error .noLabel :=
  ⟨rfl, rfl, rfl, rfl, rfl, rfl, rfl, rfl, rfl, rfl⟩

/-- the canonical string is injective on valid labels … -/
theorem str_injective {l1 l2 : Label} (h1 : Valid l1) (h2 : Valid l2) (h : toStr l1 = toStr l2) : l1 = l2 :=
  toStr_injective h1 h2 h

/-- … so interning by it always hands out a label equal to the requested one, in every cache state
    reachable by interning and by eviction of arbitrary entries (weak references) -/
theorem intern_sound {c : Cache} (hc : CacheOK c) {l : Label} (hl : Valid l) :
    (intern c l).1 = l ∧ CacheOK (intern c l).2 :=
  QV.C05.intern_sound hc hl

theorem intern_evict {c : Cache} (hc : CacheOK c) (keep : List Bool) : CacheOK (evict c keep) :=
  evict_ok hc keep

example : CacheOK [] := fun _ h => by simp at h
example : CacheOK [("X0".toList, [(0, .X)])] := by
  intro e he; simp at he; subst he; exact ⟨rfl, by decide⟩

/-! ## Operators: the dict arithmetic denotes matrix arithmetic -/

/-- `add_term` adds `c·P`, whichever branch (skip / delete / overwrite / insert) is taken -/
theorem amp_addTerm (op : Op) (l : Label) (c : K) (m n : Nat) :
    amp (addTerm op l c) m n = K.add (amp op m n) (K.mul c (ampL l m n)) :=
  QV.C05.amp_addTerm op l c m n

theorem amp_add (a b : Op) (m n : Nat) : amp (add a b) m n = K.add (amp a m n) (amp b m n) := amp_add' a b m n
theorem amp_sub (a b : Op) (m n : Nat) : amp (sub a b) m n = K.sub (amp a m n) (amp b m n) := amp_sub' a b m n
theorem amp_smul (k : K) (a : Op) (m n : Nat) : amp (smul k a) m n = K.mul k (amp a m n) := amp_smul' k a m n

/-- division by an exact divisor (the law is over exact coefficients) -/
theorem amp_div_exact (a : Op) (k : K) (h : ∀ e ∈ a, K.Divides k e.2) (m n : Nat) :
    K.mul k (amp (idiv a k) m n) = amp a m n :=
  amp_idiv' a k h m n

example : ∀ e ∈ ([([(0, .X)], ⟨4, -2⟩), ([], ⟨0, 6⟩)] : Op), K.Divides ⟨0, 2⟩ e.2 := by decide

/-- `hermitian_conjugated` is the conjugate transpose -/
theorem amp_herm (a : Op) (m n : Nat) : amp (herm a) m n = K.conj (amp a n m) := amp_herm' a m n

/-- `op1 * op2`: `(AB)|n> = A(B|n>)` with `B|n> = Σ_{(Q,d)∈b} d·i^{e_Q(n)} |Q n>` -/
theorem amp_mul (a b : Op) (ha : OpValid a) (hb : OpValid b) (m n : Nat) :
    amp (mul a b) m n
      = K.sum (b.map fun f => K.mul (K.mul f.2 (K.ipow (actL f.1 n).1)) (amp a m (actL f.1 n).2)) :=
  amp_mul' a b ha hb m n

/-- `op1 * op2` denotes `M1 @ M2` on every register that holds `op2` -/
theorem amp_mul_matrix (a b : Op) (ha : OpValid a) (hb : OpValid b) (N : Nat)
    (hN : ∀ f ∈ b, bound f.1 ≤ N) (m n : Nat) (hn : n < 2 ^ N) :
    amp (mul a b) m n = rangeSum (fun k => K.mul (amp a m k) (amp b k n)) (2 ^ N) :=
  QV.C05.amp_mul_matrix a b ha hb N hN m n hn

theorem amp_commutator (a b : Op) (m n : Nat) :
    amp (commutator a b) m n = K.sub (amp (mul a b) m n) (amp (mul b a) m n) :=
  amp_sub' (mul a b) (mul b a) m n

example : OpValid [([(0, .X), (1, .Y)], ⟨1, 2⟩), ([], ⟨3, 0⟩)] := by decide
example : ∀ f ∈ ([([(0, .X), (1, .Y)], ⟨1, 2⟩), ([], ⟨3, 0⟩)] : Op), bound f.1 ≤ 2 := by decide

/-! ## Exact cancellation -/

/-- no zero coefficient is ever stored by `add_term` -/
theorem addTerm_never_stores_zero {op : Op} (h : NoZero op) (l : Label) (c : K) : NoZero (addTerm op l c) :=
  noZero_addTerm h l c

/-- terms whose coefficients cancel exactly disappear: after any sequence of `add_term`s the dict
    holds for each label exactly the accumulated sum, and no entry at all when that sum is zero -/
theorem cancel_removes (ts : List (Label × K)) (op : Op) (hok : OK op) (hnz : NoZero op) (l : Label) :
    oget (ts.foldl (fun o e => addTerm o e.1 e.2) op) l =
      if K.add ((oget op l).getD K.zero) (coefSum ts l) = K.zero then none
      else some (K.add ((oget op l).getD K.zero) (coefSum ts l)) :=
  oget_foldl_addTerm ts op hok hnz l

/-- a product is always a proper dict without explicit zeros -/
theorem mul_is_clean (a b : Op) : OK (mul a b) ∧ NoZero (mul a b) := ok_mul a b

example : OK [([(0, .X)], ⟨1, 0⟩), ([], ⟨0, 2⟩)] ∧ NoZero [([(0, .X)], ⟨1, 0⟩), ([], ⟨0, 2⟩)] := by decide

/-! ## In-place updates -/

/-- every history of in-place updates (`+=`, `-=`, `/=`, `add_term`, constant setter, item assignment,
    including `a += a`) leaves every dict — insertion order included — exactly as the pure operations
    would.  `_partial`: histories containing `a -= a` are excluded (finding `isub-self-alias`). -/
theorem inplace_eq_pure_partial (h : List Op) (cs : List Cmd) (hh : HeapOK h)
    (hc : ∀ c ∈ cs, c.noSelfSub = true) : runReal h cs = (runPure h cs, none) :=
  runReal_eq_pure h cs hh hc

/-- witness: `op -= op` on `1·X0 + 2·Y1` raises (dictionary changed size during iteration) and
    leaves `2·Y1` behind, where the pure operation gives the zero operator -/
theorem isub_self_witness :
    runReal [[([(0, .X)], ⟨1, 0⟩), ([(1, .Y)], ⟨2, 0⟩)]] [.isub 0 0]
      = ([[([(1, .Y)], ⟨2, 0⟩)]], some .changedSize) ∧
    runPure [[([(0, .X)], ⟨1, 0⟩), ([(1, .Y)], ⟨2, 0⟩)]] [.isub 0 0] = [[]] := ⟨rfl, rfl⟩

example : HeapOK [[([(0, .X)], ⟨1, 0⟩)], []] ∧ ∀ c ∈ [Cmd.iadd 0 0, Cmd.isub 0 1, Cmd.idiv 0 ⟨2, 0⟩], c.noSelfSub = true := by
  refine ⟨?_, by decide⟩
  intro o ho
  simp at ho
  rcases ho with rfl | rfl <;> decide

/-- the operations keep the dict invariant (distinct keys) -/
theorem ops_preserve_dict {a : Op} (h : OK a) (b : Op) (l : Label) (c : K) :
    OK (addTerm a l c) ∧ OK (add a b) ∧ OK (sub a b) ∧ OK (oset a l c) ∧ OK (herm a) ∧ OK (smul c a) ∧ OK (idiv a c) :=
  ⟨ok_addTerm h l c, ok_iadd h b, ok_isub h b, ok_oset h l c, ok_map_coef _ h, ok_map_coef _ h, ok_map_coef _ h⟩

/-! ## Exports -/

/-- `pauli_label_to_bsv`: image `n xor x`, phase `i^ph·(-1)^{|z & image|}` (Y = -i·Z·X) -/
theorem bsv_sound {l : Label} (h : Valid l) (n : Nat) :
    (actL l n).2 = n ^^^ (bsv l).x ∧
    (actL l n).1 % 4 = ((bsv l).ph + 2 * popcount ((bsv l).z &&& (n ^^^ (bsv l).x))) % 4 :=
  QV.C05.bsv_sound h n

/-- `transition_amp_comp_basis(transition_amp_representation(op), m, n) = <m|op|n>` for all m, n -/
theorem tamp_sound (op : Op) (h : OpValid op) (m n : Nat) : tamp (tampRepr op) m n = amp op m n :=
  tamp_sound' op h m n

/-- `get_sparse_matrix(op, n_qubits)`: whenever it does not raise, every entry is `<m|op|n>` -/
theorem sparse_sound (op : Op) (h : OpValid op) (n? : Option Nat) {k : Nat} {f : Nat → Nat → K}
    (hs : sparseOp op n? = .ok (k, f)) (m n : Nat) (hm : m < 2 ^ k) (hn : n < 2 ^ k) : f m n = amp op m n :=
  sparseOp_sound' op h n? hs m n hm hn

/-- the fuel of the two fuel-driven model functions suffices: the bit count satisfies its defining
    recursion for every argument and the decimal rendering parses back to the number -/
theorem fuel_suffices (n : Nat) : popcount n = n % 2 + popcount (n / 2) ∧ parseDigits (digits n) = n :=
  ⟨popcount_step n, parse_digits n⟩

/-- when the export raises (the inputs the real code rejects) -/
theorem sparse_rejections :
    (sparseOp [([], ⟨2, 0⟩)] none).toOption = none ∧            -- only a constant term: max() of empty
    (sparseOp [([(1, .X)], ⟨1, 0⟩)] (some 1)).toOption = none ∧  -- register too small: assertion
    (sparseOp [([], ⟨2, 0⟩)] (some 0)).toOption = none ∧         -- zero qubits: reduce() of empty list
    (sparseOp [([(1, .X)], ⟨1, 0⟩)] none).toOption.map (·.1) = some 2 := by
  refine ⟨rfl, rfl, rfl, rfl⟩

end QV.Props.C05
