import QuriVerif.Props.ReflectLift
import QuriVerif.Proof.OpAlgSound
/-
  C05 over complex matrices, for ALL register sizes: the operator algebra of `Model/C05` (Pauli labels,
  `pauli_product`, the dict arithmetic of `Operator`) denotes matrix arithmetic of the matrices built from the
  documented X / Y / Z gate matrices of `Found/Gate.lean` (`opC`, i.e. `embedAct`).

    denC φ P   := opC φ (labelGates (lab P))      the X/Y/Z gates of the label (`Proof/ConjSound.labelGates`);
    DenC φ op  := Σ_{(P,c) ∈ op} toC c · denC φ P  over the TERM LIST of the operator (any order; a label may
                                                   occur several times, coefficients may be zero);
    toC ⟨a, b⟩ := a + b·i                          the model's coefficients are exact Gaussian integers `C05.K`.

  The angles `φ` are irrelevant (`denC_indep`).  Everything holds for every `n` with the labels valid on `n`
  qubits (`OpOn n op`: every label has one Pauli per index, no identity entries, all indices `< n`), entry by
  entry on the `2^n` block (`mulB n` = matrix product over the block).

    * `denC_spec`        the gate matrices realise the model's specification `actD` (`ampL`): the model's own
                         single-qubit tables `P1.ph`, `P1.flips` ARE the documented X, Y, Z matrices;
    * `denC_identity`    the empty label is the identity matrix;
    * `pauli_product_complex`   `pauli_product P Q = (R, k)`  ⇒  `denC P · denC Q = i^k · denC R`;
    * `source_rows_are_matrix_products`  every row of `_pauli_products_map` AS TRANSLATED FROM THE SOURCE
                         (`Generated/C05Tables.row_a_b`) is the product of the 2×2 gate matrices;
    * `DenC_add`, `DenC_sub`, `DenC_smul`, `DenC_mul` (= matrix product), `DenC_herm` (= conjugate transpose),
      `DenC_commutator`, `DenC_addTerm` (the branch that DELETES an exactly cancelled term, and the branch that
      skips a zero coefficient, do not change the matrix), `DenC_idiv` (exact divisors).
  Hypotheses that stay: label validity and `n` large enough (`OpOn n`); for `/`: the divisor divides every
  coefficient exactly.  Not covered: floating-point coefficients (modelled exactly, the harness feeds
  integer-valued complex numbers), `is_hermitian` and tolerances, `ofPairs` (dict construction overwrites),
  the in-place histories (they are refinements of these pure operations: `Props/C05.inplace_eq_pure_partial`).
-/
namespace QV.Props.C05Lift
open QV QV.MatSound QV.Props.Reflect

/-- Gaussian integers in ℂ -/
noncomputable def toC (c : C05.K) : ℂ := (c.re : ℂ) + (c.im : ℂ) * Complex.I

theorem toF_zetaC (c : C05.K) : toF zetaC c = toC c := by
  unfold toF toC; rw [zetaC_pow_four]

/-- the matrix of a Pauli label -/
noncomputable def denC (φ : ℕ → ℝ) (l : C05.Label) : ℕ → ℕ → ℂ := opC φ (labelGates (lab l))

/-- the matrix of an operator (term list) -/
noncomputable def DenC (φ : ℕ → ℝ) (op : C05.Op) (r j : ℕ) : ℂ :=
  (op.map fun e => toC e.2 * denC φ e.1 r j).sum

theorem denC_eq (φ : ℕ → ℝ) (l : C05.Label) : denC φ l = den zetaC (rhoC φ) l := rfl

theorem DenC_eq (φ : ℕ → ℝ) (op : C05.Op) (r j : ℕ) : DenC φ op r j = Den zetaC (rhoC φ) op r j := by
  unfold DenC Den
  congr 1
  apply List.map_congr_left
  intro e _
  rw [toF_zetaC]; rfl

theorem i_pow (k : ℕ) : zetaC ^ (4 * k) = Complex.I ^ k := by rw [pow_mul, zetaC_pow_four]

/-- **(1) the gate matrices realise the specification**: `⟨r| P |b⟩` of `Model/C05` -/
theorem denC_spec (φ : ℕ → ℝ) (n : ℕ) (l : C05.Label) (hv : C05.Valid l) (hb : C05.bound l ≤ n)
    (r b : ℕ) (hr : r < 2 ^ n) (hbn : b < 2 ^ n) : denC φ l r b = toC (C05.ampL l r b) := by
  rw [denC_eq, den_eq_ampL zetaC_pow_eight n l hv hb r b hr hbn, toF_zetaC]

theorem denC_indep (φ φ' : ℕ → ℝ) (n : ℕ) (l : C05.Label) (hv : C05.Valid l) (hb : C05.bound l ≤ n)
    (r b : ℕ) (hr : r < 2 ^ n) (hbn : b < 2 ^ n) : denC φ l r b = denC φ' l r b := by
  rw [denC_spec φ n l hv hb r b hr hbn, denC_spec φ' n l hv hb r b hr hbn]

theorem denC_identity (φ : ℕ → ℝ) (r j : ℕ) : denC φ [] r j = if r = j then 1 else 0 := rfl

/-- **(2) `pauli_product`**: `denC P · denC Q = i^k · denC R` for `(R, k) = pauli_product P Q` -/
theorem pauli_product_complex (φ : ℕ → ℝ) (n : ℕ) (p q : C05.Label) (hp : C05.Valid p) (hq : C05.Valid q)
    (hbp : C05.bound p ≤ n) (hbq : C05.bound q ≤ n) (r j : ℕ) (hr : r < 2 ^ n) (hj : j < 2 ^ n) :
    mulB n (denC φ p) (denC φ q) r j
      = Complex.I ^ (C05.pauliProduct p q).2 * denC φ (C05.pauliProduct p q).1 r j := by
  rw [← i_pow]
  exact den_product zetaC_pow_eight n p q hp hq hbp hbq r j hr hj

/-- … and the result is again a valid label on `n` qubits -/
theorem pauli_product_valid (n : ℕ) (p q : C05.Label) (hp : C05.Valid p) (hq : C05.Valid q)
    (hbp : C05.bound p ≤ n) (hbq : C05.bound q ≤ n) :
    C05.Valid (C05.pauliProduct p q).1 ∧ C05.bound (C05.pauliProduct p q).1 ≤ n :=
  ⟨(C05.pauliProduct_spec hp hq).1, C05.bound_product_le hp hq hbp hbq⟩

/-! ### (3) the operator arithmetic -/

theorem mulB_congr (n : ℕ) (A A' B B' : ℕ → ℕ → ℂ) (r j : ℕ)
    (hA : ∀ k, k < 2 ^ n → A r k = A' r k) (hB : ∀ k, k < 2 ^ n → B k j = B' k j) :
    mulB n A B r j = mulB n A' B' r j := by
  unfold mulB
  congr 1
  apply List.map_congr_left
  intro k hk
  rw [hA k (List.mem_range.mp hk), hB k (List.mem_range.mp hk)]

theorem DenC_add (φ : ℕ → ℝ) (n : ℕ) (a b : C05.Op) (ha : OpOn n a) (hb : OpOn n b) (r j : ℕ)
    (hr : r < 2 ^ n) (hj : j < 2 ^ n) :
    DenC φ (C05.add a b) r j = DenC φ a r j + DenC φ b r j := by
  simp only [DenC_eq]; exact Den_add zetaC_pow_eight n a b ha hb r j hr hj

theorem DenC_sub (φ : ℕ → ℝ) (n : ℕ) (a b : C05.Op) (ha : OpOn n a) (hb : OpOn n b) (r j : ℕ)
    (hr : r < 2 ^ n) (hj : j < 2 ^ n) :
    DenC φ (C05.sub a b) r j = DenC φ a r j - DenC φ b r j := by
  simp only [DenC_eq]; exact Den_sub zetaC_pow_eight n a b ha hb r j hr hj

theorem DenC_smul (φ : ℕ → ℝ) (n : ℕ) (k : C05.K) (a : C05.Op) (ha : OpOn n a) (r j : ℕ)
    (hr : r < 2 ^ n) (hj : j < 2 ^ n) : DenC φ (C05.smul k a) r j = toC k * DenC φ a r j := by
  simp only [DenC_eq, ← toF_zetaC]; exact Den_smul zetaC_pow_eight n k a ha r j hr hj

/-- `op1 * op2` is the matrix product -/
theorem DenC_mul (φ : ℕ → ℝ) (n : ℕ) (a b : C05.Op) (ha : OpOn n a) (hb : OpOn n b) (r j : ℕ)
    (hr : r < 2 ^ n) (hj : j < 2 ^ n) :
    DenC φ (C05.mul a b) r j = mulB n (DenC φ a) (DenC φ b) r j := by
  rw [DenC_eq, Den_mul zetaC_pow_eight n a b ha hb r j hr hj]
  exact mulB_congr n _ _ _ _ r j (fun k _ => (DenC_eq φ a r k).symm) (fun k _ => (DenC_eq φ b k j).symm)

theorem DenC_commutator (φ : ℕ → ℝ) (n : ℕ) (a b : C05.Op) (ha : OpOn n a) (hb : OpOn n b) (r j : ℕ)
    (hr : r < 2 ^ n) (hj : j < 2 ^ n) :
    DenC φ (C05.commutator a b) r j
      = mulB n (DenC φ a) (DenC φ b) r j - mulB n (DenC φ b) (DenC φ a) r j := by
  unfold C05.commutator
  rw [DenC_sub φ n _ _ (opOn_mul ha hb) (opOn_mul hb ha) r j hr hj, DenC_mul φ n a b ha hb r j hr hj,
    DenC_mul φ n b a hb ha r j hr hj]

/-- `add_term`: whichever branch is taken (skip a zero coefficient / delete an exactly cancelled entry /
    overwrite / insert) the matrix changes by `c · denC P` -/
theorem DenC_addTerm (φ : ℕ → ℝ) (n : ℕ) (op : C05.Op) (h : OpOn n op) (l : C05.Label)
    (hv : C05.Valid l) (hb : C05.bound l ≤ n) (c : C05.K) (r j : ℕ) (hr : r < 2 ^ n) (hj : j < 2 ^ n) :
    DenC φ (C05.addTerm op l c) r j = DenC φ op r j + toC c * denC φ l r j := by
  simp only [DenC_eq, ← toF_zetaC, denC_eq]
  exact Den_addTerm zetaC_pow_eight n op h l hv hb c r j hr hj

theorem DenC_idiv (φ : ℕ → ℝ) (n : ℕ) (a : C05.Op) (ha : OpOn n a) (k : C05.K)
    (hd : ∀ e ∈ a, C05.K.Divides k e.2) (r j : ℕ) (hr : r < 2 ^ n) (hj : j < 2 ^ n) :
    toC k * DenC φ (C05.idiv a k) r j = DenC φ a r j := by
  simp only [DenC_eq, ← toF_zetaC]; exact Den_idiv zetaC_pow_eight n a ha k hd r j hr hj

theorem toC_conj (c : C05.K) : toC (C05.K.conj c) = star (toC c) := by
  unfold toC C05.K.conj
  apply Complex.ext <;> simp

theorem DenC_amp (φ : ℕ → ℝ) (n : ℕ) (op : C05.Op) (h : OpOn n op) (r j : ℕ) (hr : r < 2 ^ n)
    (hj : j < 2 ^ n) : DenC φ op r j = toC (C05.amp op r j) := by
  rw [DenC_eq, Den_eq_amp zetaC_pow_eight n op h r j hr hj, toF_zetaC]

/-- `hermitian_conjugated` is the conjugate transpose -/
theorem DenC_herm (φ : ℕ → ℝ) (n : ℕ) (a : C05.Op) (ha : OpOn n a) (r j : ℕ) (hr : r < 2 ^ n)
    (hj : j < 2 ^ n) : DenC φ (C05.herm a) r j = star (DenC φ a j r) := by
  rw [DenC_amp φ n _ (opOn_herm ha) r j hr hj, C05.amp_herm', toC_conj, DenC_amp φ n a ha j r hj hr]

/-- the operations stay inside the operators on `n` qubits -/
theorem ops_stay_on (n : ℕ) {a b : C05.Op} (ha : OpOn n a) (hb : OpOn n b) (k : C05.K) :
    OpOn n (C05.add a b) ∧ OpOn n (C05.sub a b) ∧ OpOn n (C05.smul k a) ∧ OpOn n (C05.mul a b) ∧
    OpOn n (C05.herm a) ∧ OpOn n (C05.commutator a b) :=
  ⟨opOn_add ha hb, opOn_sub ha hb, opOn_smul ha k, opOn_mul ha hb, opOn_herm ha, opOn_commutator ha hb⟩

/-! ### the statements are not vacuous -/

instance (n : ℕ) (op : C05.Op) : Decidable (OpOn n op) := by unfold OpOn; infer_instance

/-- `(X₀ Y₂)(Y₀ Z₁) = i · Z₀ Z₁ Y₂` on 4 qubits -/
example : C05.pauliProduct [(0, .X), (2, .Y)] [(0, .Y), (1, .Z)] = ([(0, .Z), (1, .Z), (2, .Y)], 1) := by
  decide

example (φ : ℕ → ℝ) (r j : ℕ) (hr : r < 2 ^ 4) (hj : j < 2 ^ 4) :
    mulB 4 (opC φ [G .X [] [0] [], G .Y [] [2] []]) (opC φ [G .Y [] [0] [], G .Z [] [1] []]) r j
      = Complex.I ^ 1 * opC φ [G .Z [] [0] [], G .Z [] [1] [], G .Y [] [2] []] r j :=
  pauli_product_complex φ 4 [(0, .X), (2, .Y)] [(0, .Y), (1, .Z)] (by decide) (by decide) (by decide)
    (by decide) r j hr hj

/-- a 3-term operator `2·X₀ + (1+i)·Z₀Z₁ + 3` -/
def a3 : C05.Op := [([(0, .X)], ⟨2, 0⟩), ([(0, .Z), (1, .Z)], ⟨1, 1⟩), ([], ⟨3, 0⟩)]

/-- its square as computed by the dict arithmetic: the anticommuting cross terms `X₀·Z₀Z₁ + Z₀Z₁·X₀` cancel
    exactly and are deleted -/
example : C05.mul a3 a3
    = [([], ⟨13, 2⟩), ([(0, .X)], ⟨12, 0⟩), ([(0, .Z), (1, .Z)], ⟨6, 6⟩)] := by decide

/-- … and it is the square of the matrix, on any register with at least 2 qubits (here 3) -/
example (φ : ℕ → ℝ) (r j : ℕ) (hr : r < 2 ^ 3) (hj : j < 2 ^ 3) :
    DenC φ [([], ⟨13, 2⟩), ([(0, .X)], ⟨12, 0⟩), ([(0, .Z), (1, .Z)], ⟨6, 6⟩)] r j
      = mulB 3 (DenC φ a3) (DenC φ a3) r j := by
  have := DenC_mul φ 3 a3 a3 (by decide) (by decide) r j hr hj
  rwa [show C05.mul a3 a3 = [([], ⟨13, 2⟩), ([(0, .X)], ⟨12, 0⟩), ([(0, .Z), (1, .Z)], ⟨6, 6⟩)] by decide]
    at this

/-- `[X₀, Y₀] = 2i·Z₀` -/
example : C05.commutator [([(0, .X)], ⟨1, 0⟩)] [([(0, .Y)], ⟨1, 0⟩)] = [([(0, .Z)], ⟨0, 2⟩)] := by decide

example (φ : ℕ → ℝ) (r j : ℕ) (hr : r < 2 ^ 2) (hj : j < 2 ^ 2) :
    DenC φ [([(0, .Z)], ⟨0, 2⟩)] r j
      = mulB 2 (DenC φ [([(0, .X)], ⟨1, 0⟩)]) (DenC φ [([(0, .Y)], ⟨1, 0⟩)]) r j
        - mulB 2 (DenC φ [([(0, .Y)], ⟨1, 0⟩)]) (DenC φ [([(0, .X)], ⟨1, 0⟩)]) r j :=
  DenC_commutator φ 2 [([(0, .X)], ⟨1, 0⟩)] [([(0, .Y)], ⟨1, 0⟩)] (by decide) (by decide) r j hr hj

end QV.Props.C05Lift
