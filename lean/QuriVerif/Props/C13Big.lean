import QuriVerif.Proof.C13
import QuriVerif.Generated.C13InstancesBig
/-
  C13, thorough tier: the same per-instance consequences as `Props/C13.lean` for the larger generated table
  (real JW/BK mappings for 13 ≤ n ≤ 24, SCBK for even 14 ≤ n ≤ 24, all sign patterns), kernel-checked.
-/
namespace QV.Props.C13Big
open QV.C13

theorem big_instance_hypotheses (i : Inst) (hi : i ∈ QV.Gen.C13Big.instances) (nf : Option Nat) (sz2 : Option Int) :
    ∃ m, i.mapping nf sz2 = some m ∧ m.wf = true ∧ m.leftId = true ∧
      (i.kind ≠ .scbk → m.rightId = true ∧ m.nQubits = m.nSpin ∧ pivotsFound i.rows = true) := by
  have hall := QV.Gen.C13Big.instances_ok
  rw [List.all_eq_true] at hall
  exact Inst.check_spec i (hall i hi) nf sz2

theorem big_instances_state_after_inv (i : Inst) (hi : i ∈ QV.Gen.C13Big.instances) (nf : Option Nat)
    (sz2 : Option Int) (m : Mapping) (hm : i.mapping nf sz2 = some m) (bits : Nat) (hb : bits < 2 ^ m.nQubits) :
    ∃ occ, invStateMapper m bits = .ok occ ∧ stateCore m (occVector m occ) = .ok bits := by
  obtain ⟨m', h1, h2, h3, _⟩ := big_instance_hypotheses i hi nf sz2
  rw [hm] at h1
  injection h1 with h1
  subst h1
  exact state_after_inv_core m h2 h3 bits hb

theorem big_instances_inv_after_state (i : Inst) (hi : i ∈ QV.Gen.C13Big.instances) (hk : i.kind ≠ .scbk)
    (nf : Option Nat) (sz2 : Option Int) (m : Mapping) (hm : i.mapping nf sz2 = some m) (occ : List Nat) :
    ∃ bits, stateCore m (occVector m occ) = .ok bits ∧ bits < 2 ^ m.nQubits ∧
      invStateMapper m bits = .ok (occOf m.nSpin occ) := by
  obtain ⟨m', h1, h2, _, h4⟩ := big_instance_hypotheses i hi nf sz2
  rw [hm] at h1
  injection h1 with h1
  subst h1
  obtain ⟨h5, h6, _⟩ := h4 hk
  exact inv_after_state_core m h2 h5 h6 occ

end QV.Props.C13Big
