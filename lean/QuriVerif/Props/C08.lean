import QuriVerif.Proof.C08
/-
  C08 — Sampling estimation is exact under ideal sampling and stays within budget.

  Property theorems only (model: Model/C08.lean, helper lemmas: Proof/C08.lean).
  Every statement is for all weight vectors / group counts / totals / units / multinomial
  outcomes / operators / measurement groups / reconstructors / samplers — no bounds.
  Shot counts are `Nat`: "never negative or fractional" is part of the type, and `u ∣ x` says
  "a natural multiple of the shot unit".

  Finding F2 (unchanged code): `get_sampling_circuits_and_shots` skips zero-shot groups but
  `_Estimate` zips *all* groups with the returned counts (`PairMode.all`).  The full-strength
  statement is `ideal_exact_fixed` (about the repaired pairing `PairMode.positive`); for the
  unchanged pairing only `ideal_exact_sorted_partial` / `ideal_exact_partial` hold, and
  `pairing_counterexample` / `ideal_exact_all_false` prove the negation of the full statement.
-/
namespace QV.Props.C08
open QV.C08

/-- the budget law: one allocation per group, total within budget, every allocation a natural
    multiple of the shot unit -/
def WithinBudget (nGroups total u : Nat) (a : List Nat) : Prop :=
  a.length = nGroups ∧ a.sum ≤ total ∧ ∀ x ∈ a, u ∣ x

/-! ## Budget — every allocator, all weight vectors, totals and units -/

theorem budget_equipartition (n total u : Nat) (a : List Nat)
    (h : equipartition n total u = .ok a) : WithinBudget n total u a := by
  obtain ⟨_, _, rfl⟩ := equipartition_ok h
  refine ⟨List.length_replicate, equipartition_sum_le n total u, ?_⟩
  intro x hx
  rw [List.eq_of_mem_replicate hx]
  exact rounddown_dvd _ _ _

theorem budget_proportional (ws : List Nat) (total u : Nat) (a : List Nat)
    (h : proportional ws total u = .ok a) : WithinBudget ws.length total u a := by
  obtain ⟨rfl, _⟩ := proportional_ok h
  refine ⟨List.length_map _, proportional_sum_le ws total u, ?_⟩
  intro x hx
  obtain ⟨w, _, rfl⟩ := List.mem_map.mp hx
  exact rounddown_dvd _ _ _

/-- the multinomial outcome `draw` is universally quantified: *any* vector of naturals with one
    entry per group summing to `total // u` -/
theorem budget_weighted_random (ws : List Nat) (total u : Nat) (draw a : List Nat)
    (hd : isDraw ws.length total u draw = true) (h : weightedRandom ws u draw = .ok a) :
    WithinBudget ws.length total u a := by
  obtain ⟨_, _, _, rfl⟩ := weightedRandom_ok h
  simp only [isDraw, Bool.and_eq_true, beq_iff_eq] at hd
  refine ⟨by rw [List.length_map]; exact hd.1, ?_, ?_⟩
  · rw [sum_map_const_mul, hd.2]
    exact mul_div_self_le total u
  · intro x hx
    obtain ⟨d, _, rfl⟩ := List.mem_map.mp hx
    exact ⟨d, rfl⟩

example : weightedRandom [3, 0, 5] 4 [1, 0, 2] = .ok [4, 0, 8] ∧ isDraw 3 13 4 [1, 0, 2] = true := by decide
example : proportional [10, 1, 10] 3 1 = .ok [1, 0, 1] := by decide
example : equipartition 3 20 4 = .ok [4, 4, 4] := by decide

/-! ## Explicit error cases (which inputs the real code rejects) -/

theorem equipartition_raises_iff (n total u : Nat) (e : Err) :
    equipartition n total u = .error e ↔ e = .zeroDivision ∧ (n = 0 ∨ u = 0) := by
  unfold equipartition
  by_cases hn : n = 0 <;> by_cases hu : u = 0 <;> simp [hn, hu, eq_comm]

theorem proportional_raises_iff (ws : List Nat) (total u : Nat) (e : Err) :
    proportional ws total u = .error e ↔ e = .zeroDivision ∧ ws ≠ [] ∧ (ws.sum = 0 ∨ u = 0) := by
  unfold proportional
  by_cases hw : ws = [] <;> by_cases hs : ws.sum = 0 <;> by_cases hu : u = 0 <;>
    simp [hw, hs, hu, eq_comm]

theorem weighted_random_raises_iff (ws : List Nat) (u : Nat) (draw : List Nat) (e : Err) :
    weightedRandom ws u draw = .error e ↔
      (e = .zeroDivision ∧ ((ws ≠ [] ∧ ws.sum = 0) ∨ u = 0)) ∨ (e = .valueError ∧ ws = [] ∧ u ≠ 0) := by
  unfold weightedRandom
  by_cases hw : ws = [] <;> by_cases hs : ws.sum = 0 <;> by_cases hu : u = 0 <;>
    simp [hw, hs, hu, eq_comm]

/-- the decidable output check used by the correspondence harness is exactly "some multinomial
    outcome produces this allocation" -/
theorem weighted_random_outputs (ws : List Nat) (total u : Nat) (out : List Nat)
    (hw : ws ≠ []) (hs : ws.sum ≠ 0) (hu : u ≠ 0) :
    wrAdmissible ws total u out = true ↔
      ∃ draw, isDraw ws.length total u draw = true ∧ weightedRandom ws u draw = .ok out := by
  have hwr : ∀ draw, weightedRandom ws u draw = .ok (draw.map fun d => u * d) := by
    intro draw
    unfold weightedRandom
    simp [hw, hs, hu]
  constructor
  · intro h
    simp only [wrAdmissible, Bool.and_eq_true, beq_iff_eq, List.all_eq_true] at h
    refine ⟨out.map (· / u), ?_, ?_⟩
    · simp only [isDraw, List.length_map, Bool.and_eq_true, beq_iff_eq]
      exact ⟨h.1.1, h.2⟩
    · rw [hwr, List.map_map]
      congr 1
      conv => rhs; rw [← List.map_id out]
      apply List.map_congr_left
      intro x hx
      have := h.1.2 x hx
      simp only [Function.comp, id]
      exact Nat.mul_div_cancel' (Nat.dvd_of_mod_eq_zero this)
  · rintro ⟨draw, hd, ho⟩
    rw [hwr] at ho
    injection ho with ho
    subst ho
    simp only [isDraw, Bool.and_eq_true, beq_iff_eq] at hd
    simp only [wrAdmissible, List.length_map, Bool.and_eq_true, beq_iff_eq, List.all_eq_true,
      List.map_map]
    refine ⟨⟨hd.1, ?_⟩, ?_⟩
    · intro x hx
      obtain ⟨d, _, rfl⟩ := List.mem_map.mp hx
      exact Nat.mul_mod_right u d
    · have : ((fun x => x / u) ∘ fun d => u * d) = id := by
        funext d
        simp only [Function.comp, id]
        exact Nat.mul_div_cancel_left d (Nat.pos_of_ne_zero hu)
      rw [this, List.map_id, hd.2]

example : wrAdmissible [3, 0, 5] 13 4 [4, 0, 8] = true ∧ wrAdmissible [3, 0, 5] 13 4 [4, 4, 8] = false := by decide

/-- weights are rationals over a common denominator: rescaling all numerators (changing the
    denominator) does not change the proportional allocation -/
theorem proportional_scale_invariant (ws : List Nat) (total u k : Nat) (hk : 0 < k) :
    proportional (ws.map (k * ·)) total u = proportional ws total u := by
  unfold proportional
  have hsum : (ws.map (k * ·)).sum = k * ws.sum := sum_map_mul_left k ws
  by_cases hw : ws = []
  · subst hw; rfl
  · have hw' : ws.map (k * ·) ≠ [] := by simpa using hw
    simp only [hw, hw', if_false, hsum]
    by_cases hs : ws.sum = 0
    · simp [hs]
    · have hks : k * ws.sum ≠ 0 := Nat.mul_ne_zero (by omega) hs
      simp only [hs, hks, if_false]
      by_cases hu : u = 0
      · simp [hu]
      · simp only [hu, if_false, List.map_map]
        congr 1
        apply List.map_congr_left
        intro w _
        simp only [Function.comp]
        rw [← Nat.mul_assoc, Nat.mul_comm total k, Nat.mul_assoc]
        exact rounddown_scale k (total * w) ws.sum u hk

/-! ## One allocation per group, independent of the set iteration order -/

/-- whatever order the allocator iterates the `set` of groups in, the shots looked up for the
    measurement list are the per-group allocations, one per group, in measurement order -/
theorem distribute_one_per_group (n : Nat) (order : List Nat) (f : Nat → Nat)
    (h : ∀ k, k < n → k ∈ order) :
    distribute n order (order.map f) = .ok ((List.range n).map f) := by
  unfold distribute
  exact shotsPerGroup_map f order (List.range n) fun k hk => h k (List.mem_range.mp hk)

example : distribute 3 [2, 0, 1] ([2, 0, 1].map (· * 10)) = .ok [0, 10, 20] := by decide

/-- an allocator that omits a group makes `shots_map[m.pauli_set]` raise `KeyError` -/
theorem distribute_missing_group_raises (n : Nat) (order alloc : List Nat) (k : Nat) (hk : k < n)
    (hm : k ∉ order) : distribute n order alloc = .error .keyError := by
  unfold distribute
  apply shotsPerGroup_keyError _ _ k (List.mem_range.mpr hk)
  rw [List.lookup_eq_none_iff]
  intro p hp
  have : p.1 ∈ order := (List.of_mem_zip hp).1
  simp only [bne_iff_ne, ne_eq]
  intro h
  exact hm (h ▸ this)

/-- proportional allocation seen through `distribute`: the result does not depend on the
    iteration order of the set of groups -/
theorem distribute_proportional_order_free (n : Nat) (order : List Nat) (w : Nat → Nat) (total u : Nat)
    (a : List Nat) (hp : order.Perm (List.range n))
    (h : proportional (order.map w) total u = .ok a) :
    ∃ b, distribute n order a = .ok b ∧ proportional ((List.range n).map w) total u = .ok b := by
  have hsum : (order.map w).sum = ((List.range n).map w).sum := (hp.map w).sum_nat
  obtain ⟨rfl, hc⟩ := proportional_ok h
  refine ⟨(List.range n).map fun k => rounddown (total * w k) ((List.range n).map w).sum u, ?_, ?_⟩
  · rw [List.map_map, hsum]
    exact distribute_one_per_group n order _ fun k hk => hp.mem_iff.mpr (List.mem_range.mpr hk)
  · have hlen : order.length = n := by rw [hp.length_eq, List.length_range]
    unfold proportional
    rcases hc with hnil | ⟨hs, hu⟩
    · have : n = 0 := by
        have := congrArg List.length hnil
        simp only [List.length_map, List.length_nil] at this
        omega
      subst this
      rfl
    · have hne : (List.range n).map w ≠ [] := by
        intro hnil
        rw [hsum, hnil] at hs
        exact hs rfl
      rw [hsum] at hs
      simp only [hne, hs, hu, if_false, List.map_map]
      rfl

example : [2, 0, 1].Perm (List.range 3) ∧ proportional ([2, 0, 1].map fun k => [10, 1, 10][k]!) 30 1 = .ok [14, 14, 1] ∧
    distribute 3 [2, 0, 1] [14, 14, 1] = .ok [14, 1, 14] ∧ proportional [10, 1, 10] 30 1 = .ok [14, 1, 14] := by
  refine ⟨by decide, by decide, by decide, by decide⟩

/-! ## Requests handed to the sampler -/

/-- `get_sampling_circuits_and_shots` requests exactly the groups with `shots > 0`, in measurement
    order, each with its own shot count … -/
theorem requested_pairs_spec (shots : List Nat) :
    prepPairs shots = ((shots.zipIdx 0).filter fun p => p.1 > 0).map fun p => (p.2, p.1) :=
  prepFrom_eq_filter 0 shots

/-- … so the requested shots add up to the allocated shots, -/
theorem requested_shots_sum (shots : List Nat) : ((prepPairs shots).map (·.2)).sum = shots.sum :=
  prepFrom_shots_sum 0 shots

/-- … and stay within the budget for every allocator. -/
theorem requested_within_budget (n total u : Nat) (shots : List Nat) (h : WithinBudget n total u shots) :
    ((prepPairs shots).map (·.2)).sum ≤ total ∧ ∀ p ∈ prepPairs shots, u ∣ p.2 ∧ p.2 > 0 := by
  refine ⟨by rw [requested_shots_sum]; exact h.2.1, ?_⟩
  intro p hp
  have := prepFrom_mem 0 shots p hp
  exact ⟨h.2.2 p.2 this.1, this.2⟩

/-! ## Count-weighted Pauli expectation -/

theorem pauli_expectation_raises_iff (rec : Nat → Int) (isId : Bool) (counts : Counts) (e : Err) :
    pauliExp rec isId counts = .error e ↔
      (counts = [] ∧ e = .valueError) ∨
      (counts ≠ [] ∧ isId = false ∧ countTotal counts = 0 ∧ e = .zeroDivision) := by
  unfold pauliExp
  by_cases hc : counts = [] <;> by_cases hi : isId = true <;> by_cases ht : countTotal counts = 0 <;>
    simp [hc, hi, ht, eq_comm]

/-- only the outcome *frequencies* matter: an ideal sampler may return probabilities,
    probabilities × shots, or integer counts — rescaling every count by `k ≠ 0` changes nothing -/
theorem pauli_expectation_scale_invariant (rec : Nat → Int) (isId : Bool) (k : Rat) (hk : k ≠ 0)
    (counts : Counts) : pauliExp rec isId (scaleCounts k counts) = pauliExp rec isId counts :=
  pauliExp_scale rec isId k hk counts

/-! ## Exactness under ideal sampling -/

/-- FULL STATEMENT, for the repaired pairing (`PairMode.positive`): if every returned count map is the
    exact outcome distribution of its own circuit, the estimate is the identity term plus, for every
    group that received shots, the exact expectation of that group's weighted Pauli sum.
    For all operators, measurement factories, reconstructors, allocators and shot vectors
    (zero-shot groups anywhere). -/
theorem ideal_exact_fixed (op : Op) (fg : List Meas) (alloc : List Meas → R (List Nat))
    (ideal : Nat → Nat → Counts) (exact : Nat → Rat) (shots : List Nat) (hop : Sampled op)
    (ha : alloc (fg.filter fun m => !isIdentitySet m.paulis) = .ok shots)
    (hi : isIdeal op ideal exact (fg.filter fun m => !isIdentitySet m.paulis) shots = true) :
    samplingEstimate .positive op fg alloc (idealSampler ideal)
      = .ok (specValue op exact (fg.filter fun m => !isIdentitySet m.paulis) shots) := by
  rw [estimate_unfold _ _ _ _ _ _ hop ha]
  exact accumulate_positive op ideal exact _ shots 0 (constOf op) hi

/-- The unchanged pairing (`PairMode.all`) — PARTIAL: holds only when no zero-shot group precedes a
    group with shots (`zerosLast`).  What is missing: zero-shot groups in the middle, see
    `pairing_counterexample`. -/
theorem ideal_exact_sorted_partial (op : Op) (fg : List Meas) (alloc : List Meas → R (List Nat))
    (ideal : Nat → Nat → Counts) (exact : Nat → Rat) (shots : List Nat) (hop : Sampled op)
    (ha : alloc (fg.filter fun m => !isIdentitySet m.paulis) = .ok shots)
    (hi : isIdeal op ideal exact (fg.filter fun m => !isIdentitySet m.paulis) shots = true)
    (hz : zerosLast shots = true) :
    samplingEstimate .all op fg alloc (idealSampler ideal)
      = .ok (specValue op exact (fg.filter fun m => !isIdentitySet m.paulis) shots) := by
  rw [estimate_unfold _ _ _ _ _ _ hop ha]
  unfold pairing idealSampler prepPairs
  simp only []
  rw [zip_all_eq_zip_positive _ _ shots 0 hz]
  exact accumulate_positive op ideal exact _ shots 0 (constOf op) hi

/-- PARTIAL (the hypothesis of DESIGN §6): every group received shots. -/
theorem ideal_exact_partial (op : Op) (fg : List Meas) (alloc : List Meas → R (List Nat))
    (ideal : Nat → Nat → Counts) (exact : Nat → Rat) (shots : List Nat) (hop : Sampled op)
    (ha : alloc (fg.filter fun m => !isIdentitySet m.paulis) = .ok shots)
    (hi : isIdeal op ideal exact (fg.filter fun m => !isIdentitySet m.paulis) shots = true)
    (hpos : ∀ s ∈ shots, s > 0) :
    samplingEstimate .all op fg alloc (idealSampler ideal)
      = .ok (specValue op exact (fg.filter fun m => !isIdentitySet m.paulis) shots) :=
  ideal_exact_sorted_partial op fg alloc ideal exact shots hop ha hi (zerosLast_of_all_pos shots hpos)

/-- non-vacuity: the hypotheses of the partial theorems are satisfiable by a non-trivial instance
    (the witness operator with 30 shots: allocation `[14, 1, 14]`, all groups sampled) -/
example :
    Sampled Witness.op ∧ proportional Witness.weights 30 1 = .ok [14, 1, 14] ∧
      isIdeal Witness.op Witness.ideal Witness.exact Witness.groups [14, 1, 14] = true ∧
      zerosLast [14, 1, 14] = true ∧ (∀ s ∈ [14, 1, 14], s > 0) ∧
      samplingEstimate .all Witness.op Witness.groups (fun _ => proportional Witness.weights 30 1)
        (idealSampler Witness.ideal) = .ok ⟨20, 0⟩ := by
  refine ⟨⟨by decide, by decide⟩, by decide, by decide +kernel, by decide, by decide, by decide +kernel⟩

/-- WITNESS (finding F2): operator `10·Z0 + 1·X0 + 10·X1` on `H(1)|00⟩`, groups `{Z0},{X0},{X1}`,
    3 shots allocated proportionally → `[1, 0, 1]`.  Every returned count map is the exact
    distribution of its own circuit, the property demands `10·⟨Z0⟩ + 10·⟨X1⟩ = 20`, the unchanged
    pairing evaluates `X0` on the counts of the `X1` circuit and drops `X1`: it returns `11`.
    The repaired pairing returns `20`. -/
theorem pairing_counterexample :
    Witness.alloc Witness.groups = .ok [1, 0, 1] ∧
    isIdeal Witness.op Witness.ideal Witness.exact Witness.groups [1, 0, 1] = true ∧
    specValue Witness.op Witness.exact Witness.groups [1, 0, 1] = ⟨20, 0⟩ ∧
    samplingEstimate .all Witness.op Witness.groups Witness.alloc (idealSampler Witness.ideal) = .ok ⟨11, 0⟩ ∧
    samplingEstimate .positive Witness.op Witness.groups Witness.alloc (idealSampler Witness.ideal) = .ok ⟨20, 0⟩ := by
  refine ⟨by decide, by decide +kernel, by decide +kernel, by decide +kernel, by decide +kernel⟩

/-- the full-strength statement is FALSE for the unchanged pairing -/
theorem ideal_exact_all_false :
    ¬ ∀ (op : Op) (fg : List Meas) (alloc : List Meas → R (List Nat)) (ideal : Nat → Nat → Counts)
        (exact : Nat → Rat) (shots : List Nat), Sampled op →
        alloc (fg.filter fun m => !isIdentitySet m.paulis) = .ok shots →
        isIdeal op ideal exact (fg.filter fun m => !isIdentitySet m.paulis) shots = true →
        samplingEstimate .all op fg alloc (idealSampler ideal)
          = .ok (specValue op exact (fg.filter fun m => !isIdentitySet m.paulis) shots) := by
  intro h
  have hc := pairing_counterexample
  have hf : (Witness.groups.filter fun m => !isIdentitySet m.paulis) = Witness.groups := rfl
  have := h Witness.op Witness.groups Witness.alloc Witness.ideal Witness.exact [1, 0, 1]
    ⟨by decide, by decide⟩ (by rw [hf]; exact hc.1) (by rw [hf]; exact hc.2.1)
  rw [hf, hc.2.2.2.1, hc.2.2.1] at this
  exact absurd this (by decide +kernel)

/-! ## Identity handling -/

/-- the empty operator and a bare constant are returned without sampling anything -/
theorem estimate_constant (mode : PairMode) (op : Op) (fg : List Meas) (alloc : List Meas → R (List Nat))
    (sampler : List (Nat × Nat) → List Counts) (h : ¬ Sampled op) :
    samplingEstimate mode op fg alloc sampler = .ok (constOf op) := by
  unfold samplingEstimate
  by_cases h1 : op = []
  · subst h1; rfl
  · have h2 : op.length = 1 ∧ (op.lookup 0).isSome = true := by
      by_cases h2 : op.length = 1 ∧ (op.lookup 0).isSome = true
      · exact h2
      · exact absurd ⟨h1, h2⟩ h
    simp only [h1, h2, if_false, if_true, and_self]

example : ¬ Sampled [(0, ⟨5 / 2, 1⟩)] ∧
    samplingEstimate .all [(0, ⟨5 / 2, 1⟩)] [] (fun _ => .error .zeroDivision) (fun _ => []) = .ok ⟨5 / 2, 1⟩ := by
  refine ⟨fun h => h.2 ⟨rfl, rfl⟩, by decide +kernel⟩

/-- the `{I}` group never reaches the allocator, the sampler or the sum: the identity term enters the
    estimate exactly once, as `const` (for both pairings) -/
theorem identity_group_filtered (mode : PairMode) (op : Op) (fg : List Meas) (recon : Nat → Nat → Int)
    (alloc : List Meas → R (List Nat)) (sampler : List (Nat × Nat) → List Counts) :
    samplingEstimate mode op (⟨[0], recon⟩ :: fg) alloc sampler = samplingEstimate mode op fg alloc sampler := by
  unfold samplingEstimate
  simp [isIdentitySet]

end QV.Props.C08
