import QuriVerif.Props.ReflectLift
import QuriVerif.Props.C07
import QuriVerif.Proof.MeasSound
/-
  C07 over complex operators, for ALL register sizes: the measurement scheme of a qubit-wise commuting
  group is sound.

  `V` := the operator of the circuit returned by the model of
  `bitwise_commuting_pauli_measurement_circuit` (`Model/C07.measCircuit`: per qubit of the `pauli_map`
  X ↦ H, Y ↦ Sdag then H, Z ↦ nothing), gates read with the documented local matrices of `Found/Gate.lean`
  and embedded by `embedAct` (`opC`).  For every set the model accepts (all qubits `< n`) and every member
  `P` of the set (ids in {1,2,3}):

    * `meas_conj_complex`      ⟦V⟧·⟦P⟧ = ⟦Z on the support of P⟧·⟦V⟧, entry by entry on the 2^n block,
                               scalar exactly 1 (`labelGates P` = the X/Y/Z gates of the label in list
                               order, `zLabel P` = the same qubits with id 3);
    * `zsupp_diag_complex`     ⟦Z_supp(P)⟧ is diagonal and its entry at outcome `x` is `+1` / `−1` according
                               to the model's reconstructor (`bitwise_pauli_reconstructor_factory`:
                               parity of `popcount(x & (z|x))`), for every `x < 2^n`;
    * `meas_eigen_complex`     hence row `x` of `⟦V⟧·⟦P⟧` is `reconstructor P x` times row `x` of `⟦V⟧`:
                               an outcome `x` of the computational-basis measurement after `V` is an
                               eigenvector of `P` with exactly the eigenvalue the reconstructor reports;
    * `qwc_accepted`           a non-empty set of well-formed labels that commute qubit-wise in the model's
                               sense (`bsv_bitwise_commute` pairwise) is accepted (no `ValueError`);
    * `bitwise_grouping_measurable`, `sorted_injection_measurable`
                               every group produced by `bitwise_pauli_grouping` / `sorted_injection_grouping`
                               from well-formed labels gets a circuit, and the three statements above hold
                               for each of its members.

  Kernel evaluation: only the three one-qubit certificates `cert_X`, `cert_Y`, `cert_Z` of
  `Proof/MeasSound` (H·X = Z·H, (H Sdag)·Y = Z·(H Sdag), Z = Z as exact identities in the ring `Poly`).
  No `Generated.*` file is imported.  No angle variables occur: the statements hold for every φ.
-/
namespace QV.Props.C07Lift
open QV QV.C06 QV.MatSound QV.Props.Reflect

/-- product of two operators on the `2^n` block -/
noncomputable def mulN (n : ℕ) (A B : ℕ → ℕ → ℂ) (x j : ℕ) : ℂ :=
  ((List.range (2 ^ n)).map fun k => A x k * B k j).sum

/-- running `a` and then `b` is the matrix product `⟦b⟧·⟦a⟧` -/
theorem opC_append (φ : ℕ → ℝ) (n : ℕ) (a b : List Gate) (wb : WellFormed n b) (x j : ℕ)
    (hx : x < 2 ^ n) : opC φ (a ++ b) x j = mulN n (opC φ b) (opC φ a) x j := by
  unfold opC mulN
  rw [semCirc_append, actCirc_eq_sum n b wb _ x j hx]

/-- the measurement circuit as a gate list of `Found/Gate` -/
abbrev circ (gates : List C07.MGate) : List Gate := gates.map MGate.toGate

/-- **(1) the circuit diagonalises every member**: `⟦V⟧·⟦P⟧ = ⟦Z_supp(P)⟧·⟦V⟧` -/
theorem meas_conj_complex (φ : ℕ → ℝ) (n : ℕ) (set : List C07.Label) (gates : List C07.MGate)
    (h : C07.measCircuit set = .ok gates) (hsup : ∀ L ∈ set, Sup n L) (P : Label) (hP : P ∈ set)
    (hok : LabelOK n P) :
    WellFormed n (circ gates) ∧ ∀ x, x < 2 ^ n → ∀ j, j < 2 ^ n →
      mulN n (opC φ (circ gates)) (opC φ (labelGates P)) x j
        = mulN n (opC φ (labelGates (zLabel P))) (opC φ (circ gates)) x j := by
  obtain ⟨wfV, hs⟩ := measCircuit_sound (ζ := zetaC) (ρ := rhoC φ) zetaC_pow_eight (rhoC_ne_zero φ)
    two_ne_zero n set gates h hsup P hP (fun e he => (hok.2 e he).2)
  refine ⟨wfV, fun x hx j hj => ?_⟩
  have e := hs x hx j hj
  rw [one_mul] at e
  rw [← opC_append φ n _ _ wfV x j hx,
    ← opC_append φ n _ _ (wf_labelGates n _ (sup_zLabel (fun y hy => (hok.2 y hy).1))) x j hx]
  exact e

/-- **(2) the `Z` string is diagonal with the reconstructor's sign** -/
theorem zsupp_diag_complex (φ : ℕ → ℝ) (n : ℕ) (P : Label) (hok : LabelOK n P)
    (x : ℕ) (hx : x < 2 ^ n) (r : ℕ) (hr : r < 2 ^ n) :
    opC φ (labelGates (zLabel P)) r x
      = if r = x then (if C07.reconstructor P x then -1 else 1) else 0 :=
  zLabel_diag n P hok x hx r hr

/-- **(3) outcomes are eigenvectors with the reconstructed eigenvalue** -/
theorem meas_eigen_complex (φ : ℕ → ℝ) (n : ℕ) (set : List C07.Label) (gates : List C07.MGate)
    (h : C07.measCircuit set = .ok gates) (hsup : ∀ L ∈ set, Sup n L) (P : Label) (hP : P ∈ set)
    (hok : LabelOK n P) (x : ℕ) (hx : x < 2 ^ n) (j : ℕ) (hj : j < 2 ^ n) :
    mulN n (opC φ (circ gates)) (opC φ (labelGates P)) x j
      = (if C07.reconstructor P x then -1 else 1) * opC φ (circ gates) x j := by
  obtain ⟨wfV, _⟩ := meas_conj_complex φ n set gates h hsup P hP hok
  rw [← opC_append φ n _ _ wfV x j hx]
  exact meas_eigen (ζ := zetaC) (ρ := rhoC φ) zetaC_pow_eight (rhoC_ne_zero φ) two_ne_zero n set gates h
    hsup P hP hok x hx j hj

/-- **(4) qubit-wise commuting groups are accepted** -/
theorem qwc_accepted (set : List C07.Label) (hne : set ≠ []) (n : ℕ) (hok : ∀ L ∈ set, LabelOK n L)
    (hq : ∀ a ∈ set, ∀ b ∈ set, C07.bitwiseCommute (C07.bsv a) (C07.bsv b) = true) :
    ∃ gates, C07.measCircuit set = .ok gates :=
  qwc_measCircuit set hne (fun L hL => ⟨(hok L hL).1, fun e he => ((hok L hL).2 e he).2⟩) hq

/-- everything for one accepted-by-construction group -/
theorem group_sound (φ : ℕ → ℝ) (n : ℕ) (set : List C07.Label) (hne : set ≠ [])
    (hok : ∀ L ∈ set, LabelOK n L)
    (hq : ∀ a ∈ set, ∀ b ∈ set, C07.bitwiseCommute (C07.bsv a) (C07.bsv b) = true) :
    ∃ gates, C07.measCircuit set = .ok gates ∧ WellFormed n (circ gates) ∧
      ∀ P ∈ set, ∀ x, x < 2 ^ n → ∀ j, j < 2 ^ n →
        mulN n (opC φ (circ gates)) (opC φ (labelGates P)) x j
            = mulN n (opC φ (labelGates (zLabel P))) (opC φ (circ gates)) x j ∧
        mulN n (opC φ (circ gates)) (opC φ (labelGates P)) x j
            = (if C07.reconstructor P x then -1 else 1) * opC φ (circ gates) x j := by
  obtain ⟨gates, h⟩ := qwc_accepted set hne n hok hq
  have hsup : ∀ L ∈ set, Sup n L := fun L hL e he => ((hok L hL).2 e he).1
  refine ⟨gates, h, ?_, fun P hP x hx j hj => ?_⟩
  · cases set with
    | nil => exact absurd rfl hne
    | cons P _ =>
      exact (meas_conj_complex φ n _ gates h hsup P (List.mem_cons_self ..)
        (hok P (List.mem_cons_self ..))).1
  · exact ⟨(meas_conj_complex φ n set gates h hsup P hP (hok P hP)).2 x hx j hj,
      meas_eigen_complex φ n set gates h hsup P hP (hok P hP) x hx j hj⟩

/-! ### the groups the grouping strategies produce -/

theorem addToGroups_ne (p : C07.Label) (v : C07.Bsv) : ∀ gs : List C07.Group,
    (∀ g ∈ gs, g.members ≠ []) → ∀ g ∈ C07.addToGroups p v gs, g.members ≠ [] := by
  intro gs
  induction gs with
  | nil =>
    intro _ g hg
    simp [C07.addToGroups] at hg; subst hg; simp
  | cons g0 gs ih =>
    intro h g hg
    unfold C07.addToGroups at hg
    split at hg
    · rcases List.mem_cons.mp hg with rfl | hg'
      · simp
      · exact h g (List.mem_cons_of_mem _ hg')
    · rcases List.mem_cons.mp hg with rfl | hg'
      · exact h g List.mem_cons_self
      · exact ih (fun g' hg' => h g' (List.mem_cons_of_mem _ hg')) g hg'

theorem bwStep_ne (s : C07.BwState) (p : C07.Label) (h : ∀ g ∈ s.groups, g.members ≠ []) :
    ∀ g ∈ (C07.bwStep s p).groups, g.members ≠ [] := by
  unfold C07.bwStep
  cases C07.classify p <;> simp only <;> first | exact h | exact addToGroups_ne p _ s.groups h

theorem scan_ne (ps : List C07.Label) : ∀ s : C07.BwState, (∀ g ∈ s.groups, g.members ≠ []) →
    ∀ g ∈ (ps.foldl C07.bwStep s).groups, g.members ≠ [] := by
  induction ps with
  | nil => intro s h; exact h
  | cons p ps ih => intro s h; exact ih _ (bwStep_ne s p h)

theorem bitwiseGrouping_ne (ps : List C07.Label) : ∀ grp ∈ C07.bitwiseGrouping ps, grp ≠ [] := by
  intro grp hgrp
  have hne := scan_ne ps {} (by intro g hg; cases hg)
  simp only [C07.bitwiseGrouping, List.mem_append, List.mem_map] at hgrp
  rcases hgrp with (((hg | hg) | hg) | hg) | hg
  · obtain ⟨g, hg, rfl⟩ := hg
    exact hne g hg
  all_goals
    split at hg
    · cases hg
    · rename_i hemp
      simp at hg; subst hg
      intro h; rw [h] at hemp; exact hemp rfl

/-- **every group of `bitwise_pauli_grouping` is measurable and reconstructed correctly** -/
theorem bitwise_grouping_measurable (φ : ℕ → ℝ) (n : ℕ) (ps : List C07.Label)
    (hok : ∀ p ∈ ps, LabelOK n p) : ∀ grp ∈ C07.bitwiseGrouping ps,
    ∃ gates, C07.measCircuit grp = .ok gates ∧ WellFormed n (circ gates) ∧
      ∀ P ∈ grp, ∀ x, x < 2 ^ n → ∀ j, j < 2 ^ n →
        mulN n (opC φ (circ gates)) (opC φ (labelGates P)) x j
            = mulN n (opC φ (labelGates (zLabel P))) (opC φ (circ gates)) x j ∧
        mulN n (opC φ (circ gates)) (opC φ (labelGates P)) x j
            = (if C07.reconstructor P x then -1 else 1) * opC φ (circ gates) x j := by
  intro grp hgrp
  refine group_sound φ n grp (bitwiseGrouping_ne ps grp hgrp) ?_
    (QV.Props.C07.bitwise_grouping_qwc ps grp hgrp)
  intro L hL
  have : L ∈ (C07.bitwiseGrouping ps).flatten := List.mem_flatten.mpr ⟨grp, hgrp, hL⟩
  exact hok L ((QV.Props.C07.bitwise_grouping_partition ps).mem_iff.mp this)

theorem foldl_add_ne (ps : List C07.Label) : ∀ gs : List C07.Group, (∀ g ∈ gs, g.members ≠ []) →
    ∀ g ∈ ps.foldl (fun gs p => C07.addToGroups p (C07.bsv p) gs) gs, g.members ≠ [] := by
  induction ps with
  | nil => intro gs h; exact h
  | cons p ps ih => intro gs h; exact ih _ (addToGroups_ne p _ gs h)

/-- the same for `sorted_injection_grouping` -/
theorem sorted_injection_measurable (φ : ℕ → ℝ) (n : ℕ) (ps : List C07.Label)
    (hok : ∀ p ∈ ps, LabelOK n p) : ∀ g ∈ C07.sortedInjection ps,
    ∃ gates, C07.measCircuit g.members = .ok gates ∧ WellFormed n (circ gates) ∧
      ∀ P ∈ g.members, ∀ x, x < 2 ^ n → ∀ j, j < 2 ^ n →
        mulN n (opC φ (circ gates)) (opC φ (labelGates P)) x j
            = mulN n (opC φ (labelGates (zLabel P))) (opC φ (circ gates)) x j ∧
        mulN n (opC φ (circ gates)) (opC φ (labelGates P)) x j
            = (if C07.reconstructor P x then -1 else 1) * opC φ (circ gates) x j := by
  intro g hg
  refine group_sound φ n g.members (foldl_add_ne ps [] (by intro g hg; cases hg) g hg) ?_
    (QV.Props.C07.sorted_injection_qwc ps g hg)
  intro L hL
  have : L ∈ C07.allMembers (C07.sortedInjection ps) :=
    List.mem_flatMap.mpr ⟨g, hg, hL⟩
  exact hok L ((QV.Props.C07.sorted_injection_partition ps).mem_iff.mp this)

/-! ### the statements are not vacuous -/

instance (n : ℕ) (L : Label) : Decidable (LabelOK n L) :=
  decidable_of_iff ((L.Pairwise fun a b => a.1 ≠ b.1) ∧
    ∀ e ∈ L, e.1 < n ∧ (e.2 = 1 ∨ e.2 = 2 ∨ e.2 = 3)) Iff.rfl

instance (n : ℕ) (L : Label) : Decidable (Sup n L) :=
  decidable_of_iff (∀ x ∈ L, x.1 < n) Iff.rfl

/-- the group {X₀Y₁, X₀Z₂, Y₁Z₂Z₃} on 5 qubits: circuit H₀, Sdag₁, H₁ -/
private theorem ex_circ : C07.measCircuit [[(0, 1), (1, 2)], [(0, 1), (2, 3)], [(1, 2), (2, 3), (3, 3)]]
    = .ok [.H 0, .Sdag 1, .H 1] := by decide

/-- … maps `X₀Y₁` to `Z₀Z₁` exactly -/
example (φ : ℕ → ℝ) (x j : ℕ) (hx : x < 2 ^ 5) (hj : j < 2 ^ 5) :
    mulN 5 (opC φ [G .H [] [0], G .Sdag [] [1], G .H [] [1]]) (opC φ [G .X [] [0], G .Y [] [1]]) x j
      = mulN 5 (opC φ [G .Z [] [0], G .Z [] [1]])
          (opC φ [G .H [] [0], G .Sdag [] [1], G .H [] [1]]) x j :=
  (meas_conj_complex φ 5 _ _ ex_circ (by decide) [(0, 1), (1, 2)] (by decide) (by decide)).2 x hx j hj

/-- … and `Y₁Z₂Z₃` at outcome `x = 0b01010` (bits 1 and 3 set, even parity on {1,2,3}) has eigenvalue +1,
    at `x = 0b00010` eigenvalue −1 -/
example : C07.reconstructor [(1, 2), (2, 3), (3, 3)] 0b01010 = false := by decide
example : C07.reconstructor [(1, 2), (2, 3), (3, 3)] 0b00010 = true := by decide

example (φ : ℕ → ℝ) (j : ℕ) (hj : j < 2 ^ 5) :
    mulN 5 (opC φ [G .H [] [0], G .Sdag [] [1], G .H [] [1]])
        (opC φ [G .Y [] [1], G .Z [] [2], G .Z [] [3]]) 0b00010 j
      = -1 * opC φ [G .H [] [0], G .Sdag [] [1], G .H [] [1]] 0b00010 j := by
  have := meas_eigen_complex φ 5 _ _ ex_circ (by decide) [(1, 2), (2, 3), (3, 3)] (by decide)
    (by decide) 0b00010 (by decide) j hj
  rw [show C07.reconstructor [(1, 2), (2, 3), (3, 3)] 0b00010 = true by decide, if_pos rfl] at this
  exact this

end QV.Props.C07Lift
