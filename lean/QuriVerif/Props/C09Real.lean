import QuriVerif.Props.C09
import Mathlib.Analysis.SpecialFunctions.Trigonometric.Basic
import Mathlib.Analysis.SpecialFunctions.Trigonometric.Deriv
/-
  C09 (thorough tier) — the algebraic statements of Props/C09.lean read over the real numbers:
  `TExp.deriv` is the derivative (`HasDerivAt`) and `rotI k` is the shift of the angle by `k·π/2`
  for Mathlib's `Real.cos` / `Real.sin`.  Consequently the value returned by the parameter-shift
  gradient is the derivative, in the sense of analysis, of the expectation along the image of the
  `θ_p`-axis under the (affine) parameter mapping.
-/
namespace QV.Props.C09Real
open QV.C09 QV.C09.TExp QV.Props.C09

/-- the point `(cos φ_j, sin φ_j)_j` -/
noncomputable def ptR (φ : ℕ → ℝ) : Point ℝ := fun j => (Real.cos (φ j), Real.sin (φ j))

/-- `k` quarter turns are the shift of the angle by `k·π/2` -/
theorem rotI_real (k : ℤ) (x : ℝ) :
    rotI k (Real.cos x, Real.sin x) = (Real.cos (x + k * (Real.pi / 2)), Real.sin (x + k * (Real.pi / 2))) := by
  induction k using Int.induction_on with
  | zero => simp [rotI_zero]
  | succ n ih =>
    rw [rotI_succ, ih]
    have : x + ((n : ℤ) + 1 : ℤ) * (Real.pi / 2) = (x + (n : ℤ) * (Real.pi / 2)) + Real.pi / 2 := by
      push_cast; ring
    rw [this, Real.cos_add_pi_div_two, Real.sin_add_pi_div_two]
    rfl
  | pred n ih =>
    have h1 : (-(n : ℤ) - 1) = (-(n : ℤ)) + -1 := by ring
    rw [h1, rotI_pred, ih]
    have : x + ((-(n : ℤ) + -1 : ℤ) : ℝ) * (Real.pi / 2) = (x + ((-(n : ℤ) : ℤ) : ℝ) * (Real.pi / 2)) - Real.pi / 2 := by
      push_cast; ring
    rw [this, Real.cos_sub_pi_div_two, Real.sin_sub_pi_div_two]
    rfl

/-- evaluating at the point shifted by the shift set `sh` is evaluating at the angles `φ_j + shift_j·π/2`
    — exactly the raw parameter vector `get_shifted_parameters_and_coef` hands to the estimator -/
theorem shiftPt_real (sh : Shifts) (φ : ℕ → ℝ) :
    shiftPt sh (ptR φ) = ptR fun j => φ j + (getShift sh j : ℝ) * (Real.pi / 2) := by
  funext j
  simp only [shiftPt, ptR]
  exact rotI_real _ _

/-- `TExp.deriv v e` is the derivative of `t ↦ E(φ + t·v)` at `t = 0` -/
theorem hasDerivAt_eval (e : TExp ℝ) (φ v : ℕ → ℝ) :
    HasDerivAt (fun t : ℝ => eval (ptR fun j => φ j + t * v j) e) (eval (ptR φ) (deriv v e)) 0 := by
  have hlin : ∀ j, HasDerivAt (fun t : ℝ => φ j + t * v j) (v j) 0 := by
    intro j
    have := ((hasDerivAt_id (0 : ℝ)).mul_const (v j)).const_add (φ j)
    simpa using this
  have h0 : (ptR fun j => φ j + 0 * v j) = ptR φ := by funext j; simp [ptR]
  induction e with
  | const k => exact hasDerivAt_const (0 : ℝ) k
  | cos j =>
    refine ((hlin j).cos).congr_deriv ?_
    show -Real.sin (φ j + 0 * v j) * v j = -(v j) * Real.sin (φ j)
    rw [zero_mul, add_zero]; ring
  | sin j =>
    refine ((hlin j).sin).congr_deriv ?_
    show Real.cos (φ j + 0 * v j) * v j = v j * Real.cos (φ j)
    rw [zero_mul, add_zero]; ring
  | add a b iha ihb => exact iha.add ihb
  | mul a b iha ihb =>
    refine (iha.mul ihb).congr_deriv ?_
    show _ = eval (ptR φ) (TExp.deriv v a) * eval (ptR φ) b + eval (ptR φ) a * eval (ptR φ) (TExp.deriv v b)
    rw [h0]

/-- the exact estimator over ℝ: `(cos, sin)` of a rational angle -/
noncomputable def csR : ℚ → ℝ × ℝ := fun v => (Real.cos (v : ℝ), Real.sin (v : ℝ))

/-- the model's reading of an estimator call is the real expectation at the raw parameter vector
    `(v_i + k_i·π/2)_i` -/
theorem ptOfVec_real (outs : List Nat) (vec : List Angle) (j : Nat) (a : Angle)
    (h : (outs.zip vec).lookup j = some a) :
    ptOfVec csR outs vec j
      = (Real.cos ((a.1 : ℝ) + (a.2 : ℝ) * (Real.pi / 2)), Real.sin ((a.1 : ℝ) + (a.2 : ℝ) * (Real.pi / 2))) := by
  simp only [ptOfVec, h, csR]
  exact rotI_real _ _

/-- GRADIENT over ℝ: every entry returned by `parameter_shift_gradient_estimates` (exact estimator) is the
    derivative at `t = 0` of the expectation along `t ↦ φ(θ) + t·∂φ/∂θ_p`, which by `mapping_deriv_sound`
    is the image of the line `θ + t·e_p` under the parameter mapping. -/
theorem grad_is_derivative_partial (e : TExp ℝ) (m : Mapping) (vals : List ℚ) (g : List ℝ)
    (hd : RawDistinct m e)
    (h : psGradient (0 : ℝ) (· + ·) (fun v c => v * (Rat.castHom ℝ) c) (estOf csR e m.outParams) m vals = .ok g) :
    List.Forall₂
      (fun p gi => HasDerivAt
        (fun t : ℝ => eval (ptR fun j => (phiT m (θof m.inParams vals) j : ℝ) + t * (derivCoef m p j : ℝ)) e) gi 0)
      m.inParams g := by
  rw [grad_sound_partial (Rat.castHom ℝ) csR e m vals g hd h]
  suffices hs : ∀ ins : List Nat, List.Forall₂
      (fun p gi => HasDerivAt
        (fun t : ℝ => eval (ptR fun j => (phiT m (θof m.inParams vals) j : ℝ) + t * (derivCoef m p j : ℝ)) e) gi 0)
      ins (ins.map fun p => eval (basePt csR m vals) (TExp.deriv (fun j => (Rat.castHom ℝ) (derivCoef m p j)) e)) from
    hs m.inParams
  intro ins
  induction ins with
  | nil => exact List.Forall₂.nil
  | cons p rest ih =>
    refine List.Forall₂.cons ?_ ih
    exact hasDerivAt_eval e (fun j => (phiT m (θof m.inParams vals) j : ℝ)) (fun j => (derivCoef m p j : ℝ))

end QV.Props.C09Real
