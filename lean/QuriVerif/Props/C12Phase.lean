import QuriVerif.Props.C12Lift
import QuriVerif.Proof.PhaseUnit
/-
  C12, "identity up to GLOBAL PHASE": the factor `z` of `C12Lift.inverse_circuit_sound_complex_partial`
  (`c ++ inverse_circuit(c) = z·1`, `z ≠ 0`) has modulus `‖row 0 of the composite‖`; in particular it is a
  phase as soon as row 0 of the composite operator has norm one (every circuit of unitary gates; `semCirc`
  carries the scale `(1/√2)^semK`, so for circuits with `semK ≠ 0` the norm is that scale).
-/
namespace QV.Props.C12Phase
open QV QV.MatSound QV.Props.Reflect QV.Phase

/-- `|z|²` is the squared norm of row 0 of the composite operator -/
theorem inverse_factor_normSq (φ : ℕ → ℝ) (n : ℕ) (comp : List Gate) (z : ℂ)
    (h : ∀ r, r < 2 ^ n → ∀ j, j < 2 ^ n → opC φ comp r j = z * idMat r j) :
    rowNormSq (2 ^ n) (opC φ comp) 0 = Complex.normSq z := by
  have e := scalar_normSq (2 ^ n) (opC φ comp) (fun r j => if r = j then (1 : ℂ) else 0) z
    (fun r hr j hj => by rw [h r hr j hj]; rfl) 0 (Nat.two_pow_pos n)
  rw [rowNormSq_id _ _ (Nat.two_pow_pos n), mul_one] at e
  exact e

/-- **global phase**: if row 0 of `c ++ inverse(c)` has norm one, the factor is a phase -/
theorem inverse_factor_unit (φ : ℕ → ℝ) (n : ℕ) (comp : List Gate) (z : ℂ)
    (h : ∀ r, r < 2 ^ n → ∀ j, j < 2 ^ n → opC φ comp r j = z * idMat r j)
    (hn : rowNormSq (2 ^ n) (opC φ comp) 0 = 1) : ‖z‖ = 1 := by
  refine unit_phase (2 ^ n) (opC φ comp) (fun r j => if r = j then (1 : ℂ) else 0) z
    (fun r hr j hj => by rw [h r hr j hj]; rfl) 0 (Nat.two_pow_pos n) ?_ ?_
  · rw [hn, rowNormSq_id _ _ (Nat.two_pow_pos n)]
  · rw [rowNormSq_id _ _ (Nat.two_pow_pos n)]; exact one_ne_zero

end QV.Props.C12Phase
