import QuriVerif.Props.C05Lift
import QuriVerif.Generated.C05Tables
/-
  C05 — the product table translated from the source (`Generated/C05Tables`, regenerated on every run) read as 2×2 matrix
  products.  Split off `Props/C05Lift.lean` so that files building on the operator-algebra lift (C13Lift) do not depend on
  C05's generated table.
-/
namespace QV.Props.C05Lift
open QV QV.MatSound QV.Props.Reflect

/-! ### the table translated from the source -/

open QV.Gen.C05 in
/-- the rows of `_pauli_products_map` as translated from the working tree -/
def srcRows : List ((ℕ × ℕ) × Option (ℕ × ℕ)) :=
  [((1, 1), row_1_1), ((1, 2), row_1_2), ((1, 3), row_1_3), ((2, 1), row_2_1), ((2, 2), row_2_2),
   ((2, 3), row_2_3), ((3, 1), row_3_1), ((3, 2), row_3_2), ((3, 3), row_3_3)]

theorem srcRows_keys : srcRows.map (·.1) = QV.Gen.C05.tableKeys := rfl

open QV.Gen.C05 in
/-- one factor on qubit 0 -/
theorem one_qubit_product (φ : ℕ → ℝ) (a b : C05.P1) (ha : a ≠ .I) (hb : b ≠ .I) (r j : ℕ) (hr : r < 2 ^ 1)
    (hj : j < 2 ^ 1) :
    mulB 1 (denC φ [(0, a)]) (denC φ [(0, b)]) r j
      = Complex.I ^ (C05.pauliProduct [(0, a)] [(0, b)]).2
        * denC φ (C05.pauliProduct [(0, a)] [(0, b)]).1 r j :=
  pauli_product_complex φ 1 _ _ ⟨List.pairwise_singleton _ _, by simpa using ha⟩
    ⟨List.pairwise_singleton _ _, by simpa using hb⟩ (by simp [C05.bound]) (by simp [C05.bound]) r j hr hj

open QV.Gen.C05 in
/-- **every source row is a product of 2×2 gate matrices**: `σ_a · σ_b = 1` for a `None` row,
    `σ_a · σ_b = i^k · σ_c` for a row `(c, k)` -/
theorem source_rows_are_matrix_products (φ : ℕ → ℝ) (row : (ℕ × ℕ) × Option (ℕ × ℕ))
    (hrow : row ∈ srcRows) (r j : ℕ) (hr : r < 2 ^ 1) (hj : j < 2 ^ 1) :
    mulB 1 (denC φ [(0, ofCode row.1.1)]) (denC φ [(0, ofCode row.1.2)]) r j
      = match row.2 with
        | none => if r = j then 1 else 0
        | some (c, k) => Complex.I ^ k * denC φ [(0, ofCode c)] r j := by
  simp only [srcRows, List.mem_cons, List.mem_nil_iff, or_false] at hrow
  rcases hrow with rfl | rfl | rfl | rfl | rfl | rfl | rfl | rfl | rfl
  · show mulB 1 (denC φ [(0, .X)]) (denC φ [(0, .X)]) r j = if r = j then 1 else 0
    rw [one_qubit_product φ .X .X (by decide) (by decide) r j hr hj,
      show C05.pauliProduct [(0, .X)] [(0, .X)] = ([], 0) from rfl, pow_zero, one_mul, denC_identity]
  · exact one_qubit_product φ .X .Y (by decide) (by decide) r j hr hj
  · exact one_qubit_product φ .X .Z (by decide) (by decide) r j hr hj
  · exact one_qubit_product φ .Y .X (by decide) (by decide) r j hr hj
  · show mulB 1 (denC φ [(0, .Y)]) (denC φ [(0, .Y)]) r j = if r = j then 1 else 0
    rw [one_qubit_product φ .Y .Y (by decide) (by decide) r j hr hj,
      show C05.pauliProduct [(0, .Y)] [(0, .Y)] = ([], 0) from rfl, pow_zero, one_mul, denC_identity]
  · exact one_qubit_product φ .Y .Z (by decide) (by decide) r j hr hj
  · exact one_qubit_product φ .Z .X (by decide) (by decide) r j hr hj
  · exact one_qubit_product φ .Z .Y (by decide) (by decide) r j hr hj
  · show mulB 1 (denC φ [(0, .Z)]) (denC φ [(0, .Z)]) r j = if r = j then 1 else 0
    rw [one_qubit_product φ .Z .Z (by decide) (by decide) r j hr hj,
      show C05.pauliProduct [(0, .Z)] [(0, .Z)] = ([], 0) from rfl, pow_zero, one_mul, denC_identity]

end QV.Props.C05Lift
