import QuriVerif.Proof.ChannelSound
import QuriVerif.Props.C17
/-
  C17 lift: the noise instructions the factories return, as channels on the whole register (over ℂ, the
  shared gate semantics `embedAct` / `opC`).

  `TPPos n Es` (Proof/ChannelSound) = the map `ρ ↦ Σ_i E_i ρ E_i†` on the `2^n` block preserves the trace of EVERY
  matrix and sends every non-negative combination of rank-one projectors `Σ_k p_k |ψ_k⟩⟨ψ_k|` to a matrix with
  `⟨χ|·|χ⟩` real and `≥ 0` for every vector `χ`.

    * §1  closed-form Kraus families (reset, phase damping, amplitude damping, phase-amplitude damping):
          `complexSqrtRing : SqrtRing ℂ`; the Kraus matrices an instruction stores, as local matrices
          (`instrKraus`); `Complete complexSqrtRing ks` ⇒ `TPPos n` of the embedded family on any wire of any
          register (`complete_channel`); the four factories: "factory returns `ins`" ⇒ documented range ∧ channel;
    * §2  Pauli mixtures: flip kinds (BitFlip / PhaseFlip / BitPhaseFlip / Depolarizing, mixture `flipWeights`),
          GeneralDepolarizing (every qubit count), PauliNoise (with the exact-sum hypothesis the tolerance check
          does not give).

  Not covered (remain per instance): `KrausNoise` and `ProbabilisticNoise` with literal matrices (the factories
  check shapes / weights only – `kraus_unchecked_defect`, `probabilistic_unchecked_defect`; for a given complete
  family `local_channel` applies), `ThermalRelaxation` (Kraus operators come from a numerical matrix square root,
  `thermal_choi_psd_tp_partial`).
-/
namespace QV.Props.C17Lift
open QV QV.MatSound
open QV.C17 (SqrtRing M2 EV Complete gramSum Instr ThermalCfg scalarFactory exact specProbCheck specGuards
  codeGuards specKraus flipWeights generalDepolarizing pauliProduct pauliNoise noNaN)
open scoped BigOperators

/-! ### §1  closed-form Kraus families -/

/-- ℂ with `Real.sqrt` is a `SqrtRing` -/
noncomputable def complexSqrtRing : SqrtRing ℂ where
  ι := Rat.castHom ℂ
  sqrt q := ((Real.sqrt (q : ℝ) : ℝ) : ℂ)
  sqrt_sq q hq := by
    have : (0 : ℝ) ≤ (q : ℝ) := by exact_mod_cast hq
    rw [← Complex.ofReal_mul, Real.mul_self_sqrt this]
    simp
  sqrt_zero := by simp

/-- the denoted 2×2 matrices of a Kraus list (`none` if some entry is NaN/∞ or a matrix is not 2×2) -/
noncomputable def denList : List (List (List EV)) → Option (List (M2 ℂ))
  | [] => some []
  | k :: ks =>
    match M2.ofEV complexSqrtRing k, denList ks with
    | some m, some ms => some (m :: ms)
    | _, _ => none

/-- `Σ KᵀK` of a list of matrices -/
noncomputable def gramSumM : List (M2 ℂ) → M2 ℂ
  | [] => M2.zero
  | m :: ms => M2.add m.gram (gramSumM ms)

/-- all four entries are real -/
def RealM (m : M2 ℂ) : Prop := star m.a = m.a ∧ star m.b = m.b ∧ star m.c = m.c ∧ star m.d = m.d

theorem den_real {e : EV} {x : ℂ} (h : EV.den complexSqrtRing e = some x) : star x = x := by
  cases e with
  | val neg sq =>
    simp only [EV.den] at h
    split at h
    · cases h
      cases neg <;> simp [complexSqrtRing, Complex.conj_ofReal]
    · cases h
  | nan => cases h
  | inf n => cases h

theorem ofEV_real {k : List (List EV)} {m : M2 ℂ} (h : M2.ofEV complexSqrtRing k = some m) : RealM m := by
  match k, h with
  | [[a, b], [c, d]], h =>
    simp only [M2.ofEV] at h
    split at h
    · rename_i xa xb xc xd ha hb hc hd
      cases h
      exact ⟨den_real ha, den_real hb, den_real hc, den_real hd⟩
    · cases h

theorem gramSum_denList : ∀ (ks : List (List (List EV))) (g : M2 ℂ), gramSum complexSqrtRing ks = some g →
    ∃ ms, denList ks = some ms ∧ gramSumM ms = g ∧ ms.length = ks.length ∧ ∀ m ∈ ms, RealM m := by
  intro ks
  induction ks with
  | nil =>
    intro g h
    simp only [gramSum, Option.some.injEq] at h
    exact ⟨[], rfl, h, rfl, by simp⟩
  | cons k ks ih =>
    intro g h
    simp only [gramSum] at h
    split at h
    · rename_i m acc hm hacc
      obtain ⟨ms, e1, e2, e3, e4⟩ := ih acc hacc
      simp only [Option.some.injEq] at h
      refine ⟨m :: ms, by simp [denList, hm, e1], by simp [gramSumM, e2, h], by simp [e3], ?_⟩
      intro x hx
      rcases List.mem_cons.mp hx with rfl | hx
      · exact ofEV_real hm
      · exact e4 x hx
    · cases h

/-- a 2×2 matrix as a local matrix on one wire -/
noncomputable def toFn (m : M2 ℂ) (a b : ℕ) : ℂ :=
  if a = 0 then (if b = 0 then m.a else m.b) else (if b = 0 then m.c else m.d)

theorem local_of_gram : ∀ (ms : List (M2 ℂ)), (∀ m ∈ ms, RealM m) → ∀ a, a < 2 → ∀ b, b < 2 →
    (ms.map fun m => ∑ l ∈ Finset.range 2, star (toFn m l a) * toFn m l b).sum = toFn (gramSumM ms) a b := by
  intro ms
  induction ms with
  | nil =>
    intro _ a _ b _
    simp [gramSumM, toFn, M2.zero]
  | cons m ms ih =>
    intro hr a ha b hb
    rw [List.map_cons, List.sum_cons, ih (fun x hx => hr x (by simp [hx])) a ha b hb]
    obtain ⟨h1, h2, h3, h4⟩ := hr m (by simp)
    rw [Finset.sum_range_succ, Finset.sum_range_succ, Finset.sum_range_zero, zero_add]
    rcases (by omega : a = 0 ∨ a = 1) with rfl | rfl <;> rcases (by omega : b = 0 ∨ b = 1) with rfl | rfl <;>
      simp only [toFn, gramSumM, M2.add, M2.gram, if_true, one_ne_zero, if_false, h1, h2, h3, h4]

/-- `Σ KᵀK = 1` in `complexSqrtRing` ⇒ `Σ K†K = 1` for the local matrices -/
theorem localComplete_of_complete (ks : List (List (List EV))) (h : Complete complexSqrtRing ks) :
    ∃ ms, denList ks = some ms ∧ ms.length = ks.length ∧ LocalComplete 1 (ms.map toFn) := by
  obtain ⟨ms, e1, e2, e3, e4⟩ := gramSum_denList ks M2.one h
  refine ⟨ms, e1, e3, ?_⟩
  intro a ha b hb
  rw [List.map_map]
  have := local_of_gram ms e4 a ha b hb
  rw [e2] at this
  show (ms.map fun m => ∑ l ∈ Finset.range 2, star (toFn m l a) * toFn m l b).sum = _
  rw [this]
  have ha' : a < 2 := ha
  have hb' : b < 2 := hb
  rcases (by omega : a = 0 ∨ a = 1) with rfl | rfl <;> rcases (by omega : b = 0 ∨ b = 1) with rfl | rfl <;>
    simp [toFn, M2.one]

/-- the Kraus operators of an instruction's `kraus` field on wire `t` of the register (the entry
    `EV.val neg sq` denotes `±√sq`; the literal-matrix embedding `emb`) -/
noncomputable def instrKraus (ks : List (List (List EV))) (t : ℕ) : List (ℕ → ℕ → ℂ) :=
  ((denList ks).getD []).map fun m => emb (toFn m) [t]

/-- **complete Kraus list ⇒ channel**, any register size, any wire -/
theorem complete_channel (ks : List (List (List EV))) (h : Complete complexSqrtRing ks) (n t : ℕ) (ht : t < n) :
    TPPos n (instrKraus ks t) ∧ (instrKraus ks t).length = ks.length := by
  obtain ⟨ms, e1, e2, e3⟩ := localComplete_of_complete ks h
  have := local_channel n [t] (List.nodup_singleton t) (by simpa using ht) (ms.map toFn) e3
  rw [List.map_map] at this
  unfold instrKraus
  rw [e1]
  exact ⟨this, by simp [e2]⟩

/-- Reset(p0, p1): the factory returns an instruction only on the documented range, and then it denotes a
    trace-preserving, positivity-preserving map on any register -/
theorem reset_channel (tc : ThermalCfg) (a b : Rat) (ins : Instr)
    (h : scalarFactory exact specProbCheck specGuards specKraus tc .reset [.fin a, .fin b] = .ok ins)
    (n t : ℕ) (ht : t < n) :
    C17.Kind.inRange .reset [.fin a, .fin b] = true ∧ TPPos n (instrKraus ins.kraus t) := by
  have := QV.Props.C17.factory_physical_reset complexSqrtRing tc a b
  simp only [h] at this
  exact ⟨this.1, (complete_channel _ this.2 n t ht).1⟩

theorem phaseDamping_channel (tc : ThermalCfg) (a : Rat) (ins : Instr)
    (h : scalarFactory exact specProbCheck specGuards specKraus tc .phaseDamping [.fin a] = .ok ins)
    (n t : ℕ) (ht : t < n) :
    C17.Kind.inRange .phaseDamping [.fin a] = true ∧ TPPos n (instrKraus ins.kraus t) := by
  have := QV.Props.C17.factory_physical_phaseDamping complexSqrtRing tc a
  simp only [h] at this
  exact ⟨this.1, (complete_channel _ this.2 n t ht).1⟩

theorem amplitudeDamping_channel (tc : ThermalCfg) (a s : Rat) (ins : Instr)
    (h : scalarFactory exact specProbCheck specGuards specKraus tc .amplitudeDamping [.fin a, .fin s] = .ok ins)
    (n t : ℕ) (ht : t < n) :
    C17.Kind.inRange .amplitudeDamping [.fin a, .fin s] = true ∧ TPPos n (instrKraus ins.kraus t) := by
  have := QV.Props.C17.factory_physical_amplitudeDamping complexSqrtRing tc a s
  simp only [h] at this
  exact ⟨this.1, (complete_channel _ this.2 n t ht).1⟩

theorem phaseAmplitudeDamping_channel (tc : ThermalCfg) (a b s : Rat) (ins : Instr)
    (h : scalarFactory exact specProbCheck specGuards specKraus tc .phaseAmplitudeDamping
      [.fin a, .fin b, .fin s] = .ok ins)
    (n t : ℕ) (ht : t < n) :
    C17.Kind.inRange .phaseAmplitudeDamping [.fin a, .fin b, .fin s] = true ∧ TPPos n (instrKraus ins.kraus t) := by
  have := QV.Props.C17.factory_physical_phaseAmplitudeDamping complexSqrtRing tc a b s
  simp only [h] at this
  exact ⟨this.1, (complete_channel _ this.2 n t ht).1⟩

/-- non-vacuity: the amplitude-damping factory does return an instruction (4 operators) -/
example : (scalarFactory exact specProbCheck specGuards specKraus ⟨false, false, false⟩ .amplitudeDamping
    [.fin (3/10), .fin (1/5)]).toOption.map (·.kraus.length) = some 4 := by decide +kernel

/-! ### §2  Pauli mixtures -/

/-- the rows I, X, Y, Z of the one-qubit flip mixtures (the order of `flipWeights`) -/
def flipRows : List (List ℕ) := [[0], [1], [2], [3]]

/-- **BitFlip / PhaseFlip / BitPhaseFlip / Depolarizing**: the factory returns an instruction only for
    `p ∈ [0,1]`, and then the mixture `Σ_P w_P · P ρ P†` (weights `flipWeights k p`, Kraus operators `√w_P · P` with
    `P` the gate matrix of the Pauli on wire `t`) is trace preserving and positivity preserving on any register -/
theorem flip_channel (k : C17.Kind) (hk : k.isFlip = true) (tc : ThermalCfg) (q : Rat) (ins : Instr)
    (h : scalarFactory exact specProbCheck codeGuards specKraus tc k [.fin q] = .ok ins)
    (φ : ℕ → ℝ) (n t : ℕ) (ht : t < n) :
    k.inRange [.fin q] = true ∧ TPPos n (pauliKraus φ [t] flipRows (flipWeights k q)) := by
  have := QV.Props.C17.factory_physical_flip k hk tc q
  simp only [h] at this
  obtain ⟨h1, _, h3, h4⟩ := this
  refine ⟨h1, pauli_channel φ n [t] (by simpa using ht) flipRows _ ?_ h4 h3⟩
  cases k <;> simp [C17.Kind.isFlip] at hk <;> rfl

/-- **GeneralDepolarizing**, every qubit count `m`: the factory returns an instruction only for `p ∈ [0,1]`, the
    instruction stores the `4^m` Pauli rows and weights `ws` (non-negative, exact sum 1), and the mixture on target
    wires `ts` is trace preserving and positivity preserving on any register.  (`ts` is meant to have `m` wires;
    the statement does not need it.) -/
theorem generalDepolarizing_channel (q : Rat) (m nIdx : ℕ) (ins : Instr)
    (h : generalDepolarizing exact specProbCheck (.fin q) m nIdx = .ok ins)
    (φ : ℕ → ℝ) (n : ℕ) (ts : List ℕ) (ht : ∀ t ∈ ts, t < n) :
    0 ≤ q ∧ q ≤ 1 ∧ ins.qubitCount = m ∧ ins.pauliList = pauliProduct m ∧
    ∃ ws : List ℚ, ins.probList = ws.map .fin ∧ ws.length = 4 ^ m ∧ ws.sum = 1 ∧
      TPPos n (pauliKraus φ ts ins.pauliList ws) := by
  obtain ⟨hok, hrej⟩ := QV.Props.C17.generalDepolarizing_rejects_iff q m nIdx
  by_cases hc : 0 < m ∧ 0 ≤ q ∧ q ≤ 1 ∧ QV.C17.qubitIndicesBad m nIdx = false
  · rw [hok hc] at h
    cases h
    obtain ⟨hm, h0, h1, _⟩ := hc
    obtain ⟨⟨ws, e1, e2, e3, e4, _⟩, e5, _, _⟩ := QV.Props.C17.generalDepolarizing_weights q m hm h0 h1
    refine ⟨h0, h1, rfl, rfl, ws, e1, e2, e3, ?_⟩
    exact pauli_channel φ n ts ht _ ws (by rw [e2, e5]) (fun w hw => (e4 w hw).1) e3
  · rw [hrej hc] at h
    cases h

/-- **PauliNoise** (NaN-free input): an accepted instruction stores weights in `[0,1]` whose sum is only known to
    be `≤ 1 + tol`; when the sum is EXACTLY 1 the stored mixture is trace preserving and positivity preserving on
    any register.  (For a smaller sum Qulacs assigns the rest to the identity – not in the instruction.) -/
theorem pauliNoise_channel (name : String) (paulis : List (List ℕ)) (probs : List QV.C17.XR) (nIdx : ℕ) (tol : Rat)
    (ins : Instr) (hn : noNaN probs = true)
    (h : pauliNoise exact specProbCheck name paulis probs nIdx (.fin tol) = .ok ins)
    (φ : ℕ → ℝ) (n : ℕ) (ts : List ℕ) (ht : ∀ t ∈ ts, t < n) :
    ∃ ws : List ℚ, ins.probList = ws.map .fin ∧ ins.pauliList = paulis ∧
      (ws.sum = 1 → TPPos n (pauliKraus φ ts ins.pauliList ws)) := by
  obtain ⟨e1, _, e3, _, ws, e5, e6, e7, _⟩ :=
    QV.Props.C17.pauli_accepted_weights_partial name paulis probs nIdx tol ins hn h
  refine ⟨ws, e5, e1, fun hs => ?_⟩
  rw [e1]
  apply pauli_channel φ n ts ht paulis ws ?_ (fun w hw => (e7 w hw).1) hs
  rw [e3, e6, List.length_map]

/-- non-vacuity: a depolarizing instruction on wire 1 of a 3-qubit register -/
example (φ : ℕ → ℝ) : TPPos 3 (pauliKraus φ [1] flipRows (flipWeights .depolarizing (3/10))) := by
  have hok : (scalarFactory exact specProbCheck codeGuards specKraus ⟨false, false, false⟩ .depolarizing
      [.fin (3/10)]).toOption.isSome = true := by decide +kernel
  match hm : scalarFactory exact specProbCheck codeGuards specKraus ⟨false, false, false⟩ .depolarizing
      [.fin (3/10)], hok with
  | .ok ins, _ => exact (flip_channel .depolarizing rfl _ _ ins hm φ 3 1 (by omega)).2

end QV.Props.C17Lift
