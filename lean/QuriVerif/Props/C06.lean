import QuriVerif.Proof.C06
import QuriVerif.Generated.C06Tables
import QuriVerif.Found.Template
/-
  C06 — Clifford conjugation of Pauli strings is exact.

  (1) `acted_exact_1q` / `acted_exact_2q` (kernel, exact ring): for every supported gate
      kind, both control/target orientations, EVERY Pauli string on the gate's own qubits
      and both iteration orders of its factors, the model's output (P', i^k) satisfies
      U·P = i^k·P'·U as matrices and k ∈ {0, 2}.
  (2) `spectators_unchanged`, `acted_local` (all label sizes, all iteration orders, by
      induction): on a label of any size the function returns the spectator factors
      unchanged, and on the gate's qubits exactly what it returns for the restricted label,
      with the same coefficient.
  Together: U P U† = c P' with c = ±1 for strings on any number of qubits (the tensor-product
  step "A ⊗ 1 conjugates P_acted ⊗ P_rest factor-wise" is the standard fact not formalised here).
-/
namespace QV.Props.C06
open QV QV.C06

def T : Tables := QV.Gen.C06.tables

theorem contrib1_local (T : Tables) (k : Kind) (t : Nat) : Local (fun i => i = t) (contrib1 T k t) := by
  constructor
  · intro e he
    have : (e.1 == t) = false := by simpa using he
    simp [contrib1, this]
  · intro e upd s he hc x hx
    have : (e.1 == t) = true := by simpa using he
    simp only [contrib1, this, if_true] at hc
    cases hf : find1 T.c1 e.2 k with
    | none => simp [hf] at hc
    | some v =>
      obtain ⟨up, s'⟩ := v
      simp only [hf, Option.map_some] at hc
      injection hc with hc
      injection hc with h1 h2
      subst h1
      simp at hx
      rw [hx]; exact he

theorem contrib2_local (T : Tables) (k : Kind) (c t : Nat) :
    Local (fun i => i = c ∨ i = t) (contrib2 T k c t) := by
  constructor
  · intro e he
    have h1 : (e.1 == c) = false := by simp; intro h; exact he (Or.inl h)
    have h2 : (e.1 == t) = false := by simp; intro h; exact he (Or.inr h)
    simp [contrib2, h1, h2]
  · intro e upd s he hc x hx
    have key : ∀ (pc pt : Nat), x ∈ ((if pc != 0 then [(c, pc)] else []) ++ (if pt != 0 then [(t, pt)] else [])) →
        x.1 = c ∨ x.1 = t := by
      intro pc pt h
      rw [List.mem_append] at h
      cases h with
      | inl h => split at h <;> simp at h; left; rw [h]
      | inr h => split at h <;> simp at h; right; rw [h]
    unfold contrib2 at hc
    split at hc
    · cases hf : find2 T.c2 e.2 k true with
      | none => simp [hf] at hc
      | some v =>
        obtain ⟨pc, pt⟩ := v
        simp only [hf, Option.map_some] at hc
        injection hc with hc
        injection hc with h1 h2
        subst h1
        exact key pc pt hx
    · split at hc
      · cases hf : find2 T.c2 e.2 k false with
        | none => simp [hf] at hc
        | some v =>
          obtain ⟨pc, pt⟩ := v
          simp only [hf, Option.map_some] at hc
          injection hc with hc
          injection hc with h1 h2
          subst h1
          exact key pc pt hx
      · rename_i h1 h2
        exfalso
        cases he with
        | inl h => exact h1 (by simpa using h)
        | inr h => exact h2 (by simpa using h)

/-- spectator factors are returned unchanged: single-qubit gates -/
theorem conj_spectators_1q (k : Kind) (t : Nat) (L : Label) (hv : Valid L) (r : Label × Nat)
    (h : conjLoop T.prod (contrib1 T k t) false L = some r) (j : Nat) (hj : j ≠ t) : obs r.1 j = obs L j :=
  spectators_unchanged T.prod _ _ false (contrib1_local T k t) L hv r h j hj

/-- spectator factors are returned unchanged: two-qubit gates -/
theorem conj_spectators_2q (k : Kind) (c t : Nat) (L : Label) (hv : Valid L) (r : Label × Nat)
    (h : conjLoop T.prod (contrib2 T k c t) true L = some r) (j : Nat) (hj : ¬ (j = c ∨ j = t)) :
    obs r.1 j = obs L j :=
  spectators_unchanged T.prod _ _ true (contrib2_local T k c t) L hv r h j hj

/-- locality: result on the gate's qubits and coefficient = result on the restricted label -/
theorem conj_local_2q (k : Kind) (c t : Nat) (L : Label) (hv : Valid L) :
    match conjLoop T.prod (contrib2 T k c t) true L,
          conjLoop T.prod (contrib2 T k c t) true (L.filter fun e => decide (e.1 = c ∨ e.1 = t)) with
    | some r, some r' => (∀ j, (j = c ∨ j = t) → obs r.1 j = obs r'.1 j) ∧ r.2 = r'.2
    | none, none => True
    | _, _ => False :=
  acted_local T.prod (fun i => i = c ∨ i = t) _ true (contrib2_local T k c t) L hv

theorem conj_local_1q (k : Kind) (t : Nat) (L : Label) (hv : Valid L) :
    match conjLoop T.prod (contrib1 T k t) false L,
          conjLoop T.prod (contrib1 T k t) false (L.filter fun e => decide (e.1 = t)) with
    | some r, some r' => (∀ j, j = t → obs r.1 j = obs r'.1 j) ∧ r.2 = r'.2
    | none, none => True
    | _, _ => False :=
  acted_local T.prod (fun i => i = t) _ false (contrib1_local T k t) L hv

/-! exact matrix checks on the gate's own qubits -/

def pauliGate (l : Label) : List Gate :=
  if l.isEmpty then [] else [G .Pauli [] (l.map (·.1)) [] (l.map (·.2))]

/-- U·P = i^k · P'·U, exactly, with k even -/
def conjCase (n : Nat) (k : Kind) (controls targets : List Nat) (label : Label) : Bool :=
  match cliffordConj T k controls targets label with
  | .ok l' ph =>
    let u := G k controls targets []
    let lhs := circMat n (pauliGate label ++ [u])
    let rhs := circMat n (u :: pauliGate l')
    (ph == 0 || ph == 2) &&
      SMat.eq lhs ⟨Mat.smulP (Poly.uPow (4 * (ph : Int))) rhs.m, rhs.k⟩
  | _ => false

def kinds1q : List Kind := [.X, .Y, .Z, .H, .S, .Sdag, .SqrtX, .SqrtXdag, .SqrtY, .SqrtYdag]

theorem acted_exact_1q :
    (kinds1q.all fun k => [1, 2, 3].all fun p => conjCase 1 k [] [0] [(0, p)]) = true := by decide +kernel

/-- all non-identity two-qubit labels, in both iteration orders -/
def labels2 : List Label :=
  ([1, 2, 3].map fun p => [(0, p)]) ++ ([1, 2, 3].map fun p => [(1, p)]) ++
  ([1, 2, 3].flatMap fun p => [1, 2, 3].flatMap fun q => [[(0, p), (1, q)], [(1, q), (0, p)]])

theorem acted_exact_2q :
    ([Kind.CNOT, .CZ].all fun k => labels2.all fun l =>
        conjCase 2 k [0] [1] l && conjCase 2 k [1] [0] l) = true := by decide +kernel

theorem acted_exact_swap :
    (labels2.all fun l => conjCase 2 .SWAP [] [0, 1] l && conjCase 2 .SWAP [] [1, 0] l) = true := by
  decide +kernel

/-- the identity gate returns the label unchanged with coefficient 1 -/
theorem identity_gate (c t : List Nat) (l : Label) : cliffordConj T .Identity c t l = .ok l 0 := by
  unfold cliffordConj
  have h1 : T.clifford.contains Kind.Identity = true := by decide
  rw [h1]
  simp

/-- non-Clifford gates are rejected; the multi-qubit Pauli gate is NotImplemented -/
theorem non_clifford_rejected :
    ([Kind.T, .Tdag, .RX, .RY, .RZ, .U1, .U2, .U3, .TOFFOLI, .PauliRotation, .UnitaryMatrix].all fun k =>
      !T.clifford.contains k) = true := by decide

theorem rejects (k : Kind) (h : T.clifford.contains k = false) (c t : List Nat) (l : Label) :
    cliffordConj T k c t l = .valueError := by
  unfold cliffordConj
  rw [h]
  simp

theorem pauli_gate_not_implemented (c t : List Nat) (l : Label) :
    cliffordConj T .Pauli c t l = .notImplemented := by
  unfold cliffordConj
  have h1 : T.clifford.contains Kind.Pauli = true := by decide
  rw [h1]
  simp

/-! non-vacuity -/
example : Valid [(0, 1), (3, 2), (5, 3)] := by unfold Valid; decide
example : cliffordConj T .CNOT [0] [1] [(0, 2), (1, 2), (4, 3)] = .ok [(0, 1), (1, 3), (4, 3)] 2 := by decide

end QV.Props.C06
