import QuriVerif.Props.C19Lift
import QuriVerif.Proof.SubSound
/-
  C19, sub level, over complex operators: the concrete counterparts of `Props/C19.inverse_sub_sound` and
  `Props/C19.controlled_sub_sound` (see `Proof/SubSound` for why the abstract `PhaseMonoid` theorems are not
  instantiated literally: their `one_mul` / `mul_one` are equalities on the carrier, which kernels `ℕ → ℕ → ℂ`
  satisfy only on the `2^n` block; the list inductions are redone on the block, `expand_inv` / `expand_ctl` of
  `Proof/C19` are reused).

    * `inverse_sub_complex`     if `p` expands to `gs` and every primitive of `gs` followed by its table inverse is
                                the identity operator (= `C19Lift.inverse_rows_sound` for the rows of inverse.py),
                                then `Inverse(p)` expands to some `gs'` and `gs ; gs'` is EXACTLY the identity
                                operator on the `2^n` block;
    * `controlled_sub_complex`  if every primitive's controlled version (the resolver's body, `interpC`) is
                                `ctrlOp 0` of the primitive moved to wires `1..n` (= `C19Lift.controlled_rows_sound`
                                for the rows of control.py), then `Controlled(p)` expands to some `gs'` whose operator
                                on `n+1` wires is EXACTLY `ctrlOp 0 1` of the operator of `gs` moved to wires `1..n`;
    * `moved_is_shift`          "moved to wires `1..n`" is the index shift: `uopC (gs↑) r j = uopC gs (r/2) (j/2)`
                                when `r`, `j` agree on wire 0, else `0`.
  Hypotheses that stay: the decoding `interp` / `interpC` of op codes into gates (the harness's op table) and, per
  primitive occurring in the expansion, the row statement above (items 2/3 of `C19Lift`); `tracked global phase`
  of subs (`gphase`, `phase_*` rows) is not part of these statements.
-/
namespace QV.Props.C19SubLift
open QV QV.MatSound QV.C19 QV.C19Lib QV.Gen.C19 QV.Props.Reflect QV.Props.C19Lift

theorem inverse_sub_complex (φ : ℕ → ℝ) (n : ℕ) (interp : GateI → Gate) (invOp : ℕ → ℕ) (p : Program)
    {gs : List GateI} (h : expand p = .ok gs)
    (hprim : ∀ g ∈ gs, WellFormed n [interp g, interp (invGate invOp g)] ∧
      ∀ r, r < 2 ^ n → ∀ j, j < 2 ^ n →
        uopC φ [interp g, interp (invGate invOp g)] r j = if r = j then 1 else 0) :
    ∃ gs', expand (invProgram invOp p) = .ok gs' ∧
      ∀ r, r < 2 ^ n → ∀ j, j < 2 ^ n →
        uopC φ (gs.map interp ++ gs'.map interp) r j = if r = j then 1 else 0 :=
  inverse_sub_uop zetaC_pow_eight two_ne_zero n interp invOp p h hprim

theorem controlled_sub_complex (φ : ℕ → ℝ) (n : ℕ) (interp : GateI → Gate)
    (interpC : GateI → List Gate) (ctlOp : ℕ → ℕ) (p : Program) {gs : List GateI}
    (h : expand p = .ok gs)
    (hprim : ∀ g ∈ gs, WellFormed n [interp g] ∧ WellFormed (n + 1) (interpC (ctlGate ctlOp g)) ∧
      ∀ r, r < 2 ^ (n + 1) → ∀ j, j < 2 ^ (n + 1) →
        uopC φ (interpC (ctlGate ctlOp g)) r j
          = ctrlOp 0 1 (uopC φ [(interp g).relabel (· + 1)]) r j) :
    ∃ gs', expand (ctlProgram ctlOp p) = .ok gs' ∧
      ∀ r, r < 2 ^ (n + 1) → ∀ j, j < 2 ^ (n + 1) →
        uopC φ (gs'.flatMap interpC) r j
          = ctrlOp 0 1 (uopC φ ((gs.map interp).map (Gate.relabel (· + 1)))) r j :=
  controlled_sub_uop n interp interpC ctlOp p h hprim

theorem moved_is_shift (φ : ℕ → ℝ) (n : ℕ) (gs : List Gate) (wf : WellFormed n gs) (r j : ℕ)
    (hr : r < 2 ^ (n + 1)) (hj : j < 2 ^ (n + 1)) :
    uopC φ (gs.map (Gate.relabel (· + 1))) r j
      = if r % 2 = j % 2 then uopC φ gs (r / 2) (j / 2) else 0 :=
  uop_shift n gs wf r j hr hj

/-! ### non-vacuity: a two-qubit sub `X₁ ; RY₀(2θ₀)`, its inverse and its controlled version -/

/-- op codes: 0 = S, 1 = Sdag, 2 = RY(θ₀), 3 = RY(−θ₀) on the single qubit of the instruction -/
def interpI (g : GateI) : Gate :=
  let q := g.qs.getD 0 0
  if g.op = 0 then G .S [] [q] [] else if g.op = 1 then G .Sdag [] [q] []
  else if g.op = 2 then G .RY [] [q] [⟨[1], 0⟩] else G .RY [] [q] [⟨[-1], 0⟩]

def invOpI (o : ℕ) : ℕ := if o = 0 then 1 else if o = 1 then 0 else if o = 2 then 3 else 2

def exP : Program := ⟨[], ⟨2, 0, [.prim 0 [1], .prim 2 [0]]⟩⟩

theorem exP_expand : expand exP = .ok [⟨0, [1]⟩, ⟨2, [0]⟩] := by decide

/-- `S₁ ; RY₀(θ₀)` followed by the expansion of its inverse is the identity on 2 qubits, for all θ₀ -/
example (φ : ℕ → ℝ) : ∃ gs', expand (invProgram invOpI exP) = .ok gs' ∧
    ∀ r, r < 2 ^ 2 → ∀ j, j < 2 ^ 2 →
      uopC φ ([G .S [] [1] [], G .RY [] [0] [⟨[1], 0⟩]] ++ gs'.map interpI) r j
        = if r = j then 1 else 0 := by
  refine inverse_sub_complex φ 2 interpI invOpI exP exP_expand ?_
  intro g hg
  simp only [List.mem_cons, List.mem_nil_iff, or_false] at hg
  rcases hg with rfl | rfl
  · refine ⟨by decide, fun r hr j hj => ?_⟩
    exact inverse_rows_sound ("S", inv_S) (by simp [invRows])
      (⟨fun a ha b hb _ => by omega, fun _ _ => by decide⟩ : Placement (fun _ => 1) 1 2) [] φ r hr j hj
  · refine ⟨by decide, fun r hr j hj => ?_⟩
    exact inverse_rows_sound ("RY", inv_RY) (by simp [invRows])
      (⟨fun a ha b hb _ => by omega, fun _ _ => by decide⟩ : Placement (fun _ => 0) 1 2)
      [Angle.var 0] φ r hr j hj

/-- op codes for the controlled example: 0 = X, 2 = RY(2θ₀); controlled codes 10, 12 on (control, target) -/
def interpX (g : GateI) : Gate :=
  let q := g.qs.getD 0 0
  if g.op = 0 then G .X [] [q] [] else G .RY [] [q] [⟨[2], 0⟩]

def interpCX (g : GateI) : List Gate :=
  let c := g.qs.getD 0 0
  let t := g.qs.getD 1 0
  if g.op = 10 then [G .CNOT [c] [t] []]
  else [G .CNOT [c] [t] [], G .RY [] [t] [⟨[-1], 0⟩], G .CNOT [c] [t] [], G .RY [] [t] [⟨[1], 0⟩]]

def exQ : Program := ⟨[], ⟨2, 0, [.prim 0 [1], .prim 2 [0]]⟩⟩

theorem exQ_expand : expand exQ = .ok [⟨0, [1]⟩, ⟨2, [0]⟩] := by decide

def plc (t : ℕ) : ℕ → ℕ := fun i => if i = 0 then 0 else t

theorem plc_placement (t : ℕ) (ht : 0 < t) (ht3 : t < 3) : Placement (plc t) 2 3 := by
  constructor
  · intro a ha b hb h
    have ha' : a = 0 ∨ a = 1 := by omega
    have hb' : b = 0 ∨ b = 1 := by omega
    rcases ha' with rfl | rfl <;> rcases hb' with rfl | rfl <;> simp [plc] at h <;> omega
  · intro q hq
    unfold plc
    split <;> omega

/-- `Controlled(X₁ ; RY₀(2θ₀))` expands to `CNOT₀₂ ; (CNOT₀₁ RY₁(−θ₀) CNOT₀₁ RY₁(θ₀))` and this is exactly
    `ctrlOp 0` of `X₂ ; RY₁(2θ₀)` on 3 qubits, for all θ₀ -/
example (φ : ℕ → ℝ) : ∃ gs', expand (ctlProgram (· + 10) exQ) = .ok gs' ∧
    ∀ r, r < 2 ^ 3 → ∀ j, j < 2 ^ 3 →
      uopC φ (gs'.flatMap interpCX) r j
        = ctrlOp 0 1 (uopC φ [G .X [] [2] [], G .RY [] [1] [⟨[2], 0⟩]]) r j := by
  refine controlled_sub_complex φ 2 interpX interpCX (· + 10) exQ exQ_expand ?_
  intro g hg
  simp only [List.mem_cons, List.mem_nil_iff, or_false] at hg
  rcases hg with rfl | rfl
  · refine ⟨by decide, by decide, fun r hr j hj => ?_⟩
    exact (controlled_rows_sound ("X", ctl_X) (by simp [ctlRows]) (by decide)
      (plc_placement 2 (by decide) (by decide)) [] φ r hr j hj).2
  · refine ⟨by decide, by decide, fun r hr j hj => ?_⟩
    exact (controlled_rows_sound ("RY", ctl_RY) (by simp [ctlRows]) (by decide)
      (plc_placement 1 (by decide) (by decide)) [Angle.var 0] φ r hr j hj).2

end QV.Props.C19SubLift
