import QuriVerif.Proof.C10S
import QuriVerif.Generated.C10Tables
/-
  C10 — Binding, mapping and transpiling parametric circuits commute.

  Property theorems only.  Everything is stated about the executable model of
  `Model/C10.lean` (tied to the working tree by `Generated/C10Tables.lean` — whose own theorems
  are part of this property's obligations — and by the correspondence harness `harness/c10.py`),
  for every coefficient type `K`, every table `tb` of translated rules and every operation history.
-/
set_option linter.unusedSectionVars false
set_option linter.unusedVariables false

namespace QV.Props.C10
open QV QV.C10 PhaseMonoid

variable {K : Type} [Num K]

/-! ## bind -/

/-- **bind_spec.**  For every construction history (any sequence of new / add_parameters / add_gate /
    add_Parametric*_gate / extend / `+` / `__radd__` / parametric transpilers, failing operations
    included) and every linearly mapped circuit `c` in the resulting store: `bind_parameters(vals)`
    is the gate list in which each parametric gate carries the value, at `vals`, of the angle function
    recorded for its raw parameter when that gate was created (`defs`, see `angle_recorded`), and it
    fails exactly when one of those evaluations fails. -/
theorem bind_spec (tb : Tables) (ops : List (Op K)) (h : Nat) (c : LC K)
    (hc : (runS tb {} ops).circs[h]? = some (.lin c)) (vals : List K) :
    c.bind vals = specBindGs (runS tb {} ops).al.defs (mkEnv c.m.inP vals) c.gs :=
  bind_eq_spec_defs ((run_wf tb init_wf ops).circs _ (List.mem_of_getElem? hc)) vals

theorem runS_append (tb : Tables) (s : Store K) (a b : List (Op K)) :
    runS tb s (a ++ b) = runS tb (runS tb s a) b := by
  induction a generalizing s with
  | nil => rfl
  | cons o os ih => simp only [List.cons_append, runS_cons]; exact ih _

/-- what `defs` means: the angle given to a successful `add_Parametric*_gate` on a linearly mapped
    circuit is recorded under the fresh raw parameter, and no later operation changes the record. -/
theorem angle_recorded (tb : Tables) (ops more : List (Op K)) (h : Nat) (k : PK) (ts ids : List Nat)
    (a : Ang K) (c : LC K) (hc : (runS tb {} ops).circs[h]? = some (.lin c))
    (hok : (step tb (runS tb {} ops) (.addPar h k ts ids a)).2 = none) :
    (runS tb {} (ops ++ .addPar h k ts ids a :: more)).al.defs.get? (runS tb {} ops).al.next = some a := by
  rw [runS_append, runS_cons]
  have hw := run_wf tb init_wf ops
  apply (run_ext tb (step_wf tb hw _) more).2
  revert hok
  simp only [step, hc]
  cases hp : c.addParA (runS tb {} ops).al k ts ids a with
  | error e => simp
  | ok r =>
    obtain ⟨c2, al2⟩ := r
    obtain ⟨_, e2⟩ := addParA_ok hp
    intro _
    simp only [e2]
    exact Dict.get?_set_self _ _ _

/-- the sequence form of the mapping (`seq_mapper`) agrees with the same evaluation -/
theorem seq_mapper_length (m : Mapping K) (vals : List K) (h : vals.length ≠ m.inP.length) :
    m.seqMapper vals = .error .valueError := by
  simp [Mapping.seqMapper, h]

/-! ## parameter identity -/

/-- **distinct stay distinct.**  After any history, `add_parameters(*names)` on a linearly mapped
    circuit appends parameters that are pairwise distinct, different from `CONST` and different from
    every parameter of every existing circuit — whatever the names are (equal names included). -/
theorem add_parameters_fresh (tb : Tables) (ops : List (Op K)) (h : Nat) (names : List String) (c : LC K)
    (hc : (runS tb {} ops).circs[h]? = some (.lin c)) :
    let s := runS tb {} ops
    let ids := freshIds s.al.next names.length
    (step tb s (.addParams h names)).1.circs[h]? =
        some (.lin { c with m := { c.m with inP := c.m.inP ++ ids } }) ∧
    ids.Nodup ∧ ∀ p ∈ ids, p ≠ CONST ∧ ∀ c0 ∈ s.circs, p ∉ c0.view.m.inP := by
  intro s ids
  have hw := run_wf tb init_wf ops
  have hi := run_in tb init_wf init_in ops
  refine ⟨?_, freshIds_nodup _ _, fun p hp => ⟨?_, fun c0 hc0 hm => ?_⟩⟩
  · have hl : h < s.circs.length := by
      cases Nat.lt_or_ge h s.circs.length with
      | inl x => exact x
      | inr x => rw [List.getElem?_eq_none x] at hc; cases hc
    simp only [step, s, ids, hc]
    simp [hl, s]
  · have := freshIds_ge hp
    exact Nat.ne_of_gt (Nat.lt_of_lt_of_le hw.pos this)
  · have h1 := (hi c0 hc0 p hm).2
    exact Nat.lt_irrefl _ (Nat.lt_of_lt_of_le h1 (freshIds_ge hp))

/-- **identity, not name.**  The names passed to `add_parameters` are never consulted: only their
    number matters, for the operation and hence for every later observation. -/
theorem names_irrelevant (tb : Tables) (s : Store K) (h : Nat) (names names' : List String)
    (hl : names.length = names'.length) :
    step tb s (.addParams h names) = step tb s (.addParams h names') := by
  simp only [step, hl]

/-- **shared ones are identified — full statement.**  In every circuit of every history each
    parameter occurs once in the parameter list (so `parameter_count` is the number of distinct
    parameters and `bind` gives each parameter exactly one value).
    FALSE for the modelled (= unchanged) code: see `param_identity_fails`. -/
def ParamIdentity (K : Type) [Num K] (tb : Tables) : Prop :=
  ∀ ops : List (Op K), ∀ c ∈ (runS tb {} ops).circs, c.view.m.inP.Nodup

/-- what is provable: the statement for histories in which the two operands of every
    `extend` / `+` / `__radd__` have no parameter in common (`runDisjoint`, a decidable predicate
    evaluated along the run).  Missing: operands sharing a parameter — `combine` concatenates
    `in_params` without de-duplication (finding `combine-duplicates-shared-in-params`). -/
theorem param_identity_partial (tb : Tables) (ops : List (Op K)) (hd : runDisjoint tb ({} : Store K) ops = true) :
    ∀ c ∈ (runS tb {} ops).circs, c.view.m.inP.Nodup :=
  run_nodup tb init_wf init_in (by intro c h; simp at h) ops hd

def tb0 : Tables := QV.Gen.C10.tables

/-- non-vacuity: a history satisfying the hypothesis of `param_identity_partial` that does combine circuits -/
example : runDisjoint tb0 ({} : Store Int) [.newL 2, .addParams 0 ["x"], .addPar 0 .rx [0] [] (.par 1), .newL 2,
    .addParams 1 ["x"], .addPar 1 .prot [0, 1] [1, 3] (.fn [(3, 2), (CONST, 1)]), .extend 0 (.h 1),
    .rplus (.lit [{ kind := .H, targets := [0] }]) 0] = true := by decide

/-- the witness: `sub = [ParametricRX(0; x)]`, then `sub + sub` -/
def f6History : List (Op Int) :=
  [.newL 1, .addParams 0 ["x"], .addPar 0 .rx [0] [] (.par 1), .plus 0 (.h 0)]

deriving instance DecidableEq for Except

/-- **combine_shared_counterexample.**  `sub + sub` has the parameter list `[x, x]`
    (`parameter_count = 2` for one parameter) and `bind [1, 3]` gives *both* gates the angle 3:
    the first value is silently ignored. -/
theorem combine_shared_counterexample :
    ((runS tb0 {} f6History).circs[1]?.map fun c => (c.view.m.inP, c.bind [1, 3])) =
      some ([1, 1], .ok [rot .rx [0] [] 3, rot .rx [0] [] 3]) := by decide

theorem param_identity_fails : ¬ ParamIdentity Int tb0 := by
  intro h
  have w := combine_shared_counterexample
  cases hc : (runS tb0 {} f6History).circs[1]? with
  | none => rw [hc] at w; cases w
  | some c =>
    rw [hc] at w
    simp only [Option.map_some, Option.some.injEq, Prod.mk.injEq] at w
    have := h f6History c (List.mem_of_getElem? hc)
    rw [w.1] at this
    exact absurd this (by decide)

theorem get?_setAll_not_mem {V : Type} (d : Dict V) (kvs : List (PId × V)) (k : PId)
    (h : k ∉ kvs.map (·.1)) : (d.setAll kvs).get? k = d.get? k := by
  induction kvs generalizing d with
  | nil => rfl
  | cons kv r ih =>
    simp only [List.map_cons, List.mem_cons, not_or] at h
    simp only [Dict.setAll, List.foldl_cons]
    have := ih (d.set kv.1 kv.2) h.2
    simp only [Dict.setAll] at this
    rw [this, Dict.get?_set_ne _ _ h.1]

theorem get?_setAll_zip {V : Type} (d : Dict V) (ks : List PId) (vs : List V) (hn : ks.Nodup) (i : Nat)
    (h1 : i < ks.length) (h2 : i < vs.length) : (d.setAll (ks.zip vs)).get? ks[i] = some vs[i] := by
  induction ks generalizing d vs i with
  | nil => simp at h1
  | cons k r ih =>
    cases vs with
    | nil => simp at h2
    | cons v vr =>
      rw [List.nodup_cons] at hn
      simp only [List.zip_cons_cons, Dict.setAll, List.foldl_cons]
      cases i with
      | zero =>
        have : k ∉ (r.zip vr).map (·.1) := by
          intro hm
          simp only [List.mem_map] at hm
          obtain ⟨x, hx, e⟩ := hm
          have := (List.of_mem_zip hx).1
          rw [e] at this
          exact hn.1 this
        have e := get?_setAll_not_mem (d.set k v) (r.zip vr) k this
        simp only [Dict.setAll] at e
        simp only [List.getElem_cons_zero]
        rw [e, Dict.get?_set_self]
      | succ j =>
        simp only [List.getElem_cons_succ]
        have := ih (d.set k v) vr hn.2 j (by simpa using h1) (by simpa using h2)
        simpa [Dict.setAll] using this

/-- when the parameter list has no repetition, `bind` gives the i-th parameter the i-th value
    (with a repetition the last value wins, see `combine_shared_counterexample`) -/
theorem each_parameter_its_value (inP : List PId) (vals : List K) (hn : inP.Nodup)
    (hc : ∀ p ∈ inP, p ≠ CONST) (i : Nat) (h1 : i < inP.length) (h2 : i < vals.length) :
    (mkEnv inP vals).get? inP[i] = some vals[i] := by
  unfold mkEnv Dict.ofZip
  rw [Dict.get?_set_ne _ _ (hc _ (List.getElem_mem h1))]
  exact get?_setAll_zip [] inP vals hn i h1 h2

/-! ## transpilers -/

/-- **in_params_preserved.**  Every parametric transpiler (wrapper of any of the inner circuit
    transpilers, RX→RZ·H, RY→RZ·H, Pauli-rotation decomposition, any sequence of them) applied to any
    circuit of any history returns a linearly mapped circuit with the *same* parameter list (same
    identities, same order, repetitions included) and the same qubit count. -/
theorem in_params_preserved (tb : Tables) (ops : List (Op K)) (ts : List PT0) (h : Nat) (c : Circ K)
    (hc : (runS tb {} ops).circs[h]? = some c)
    (hok : (step tb (runS tb {} ops) (.tr ts h)).2 = none) :
    ∃ r : LC K, (step tb (runS tb {} ops) (.tr ts h)).1.circs = (runS tb {} ops).circs ++ [.lin r] ∧
      r.m.inP = c.view.m.inP ∧ r.n = c.view.n := by
  have hw := run_wf tb init_wf ops
  revert hok
  simp only [step, hc]
  cases hq : seqT tb ts c.view (runS tb {} ops).al with
  | error e => simp
  | ok r =>
    obtain ⟨c2, al2⟩ := r
    intro _
    have kk := seqT_keeps hw.awf (view_wf (hw.circs _ (List.mem_of_getElem? hc))) hq
    exact ⟨c2, rfl, kk.inP, kk.n⟩

/-- **transpile_bind_commute, gate-list level (exact).**  For the three rewriting transpilers:
    binding the transpiled circuit gives exactly the bound source gate list with the non-parametric
    rule (`decBound`: `RX2RZHTranspiler.decompose` / `RY2RZHTranspiler.decompose` /
    `PauliRotationDecomposeTranspiler.decompose`, cf. `Gen.rx2rzh_matches`) applied at the positions of
    the parametric gates — for every well-formed circuit, in particular every circuit of every history. -/
theorem rewriter_bind_exact (tb : Tables) (ops : List (Op K)) (w : Rewriter) (h : Nat) (c : Circ K)
    (hc : (runS tb {} ops).circs[h]? = some c) (c' : LC K) (al' : Alloc K)
    (hr : rewriteT w c.view (runS tb {} ops).al = .ok (c', al')) (vals : List K) (out0 : List (FG K))
    (h0 : c.view.bind vals = .ok out0) : c'.bind vals = zipExpand w c.view.gs out0 := by
  have hw := run_wf tb init_wf ops
  exact rewriteT_bind hw.awf (view_wf (hw.circs _ (List.mem_of_getElem? hc))) hr vals out0 h0

/-- the rule applied to a bound rotation is what the non-parametric `GateKindDecomposer` does to it -/
theorem decBound_is_decomposer (k : PK) (body : List TI) (g : FG K) (hk : g.kind = k.bound) :
    decBound (.seq body) g = .ok (decomp1 k.bound body [g]) := by
  simp [decBound, decomp1, hk]

variable {M : Type} [PhaseMonoid M]

/-- hypotheses under which the transpilers of a table are sound, in the intended reading
    (`M` = unitaries modulo global phase): every rule body has the action of the gate it replaces
    (generated obligations `*_rules_ok`, `pauli_rotation_decompose_partial`), every inner circuit
    transpiler preserves the action of the gate list it is given (C01) -/
structure TablesSound (sem : FG K → M) (tb : Tables) : Prop where
  rx : ∀ k g out, decBound (K := K) (tb.rx2rzh.rule k) g = .ok out → PhaseMonoid.equiv (semList sem out) (sem g)
  ry : ∀ k g out, decBound (K := K) (tb.ry2rzh.rule k) g = .ok out → PhaseMonoid.equiv (semList sem out) (sem g)
  pauli : ∀ k g out, decBound (K := K) (tb.pauli.rule k) g = .ok out → PhaseMonoid.equiv (semList sem out) (sem g)
  inner : ∀ (i : Inner) n seg out, i.run (K := K) tb n seg = .ok out →
    PhaseMonoid.equiv (semList sem out) (semList sem seg)

theorem PT0_sound (sem : FG K → M) (tb : Tables) (hs : TablesSound sem tb) (t : PT0) :
    BindSound sem (fun (c : LC K) al => t.run tb c al) := by
  cases t with
  | wrap i =>
    intro al al' c c' ha hw h
    exact wrapT_sound sem (i.run tb c.n) (hs.inner i c.n) al al' c c' ha hw h
  | rx => exact rewriteT_sound sem tb.rx2rzh hs.rx
  | ry => exact rewriteT_sound sem tb.ry2rzh hs.ry
  | pauli => exact rewriteT_sound sem tb.pauli hs.pauli

/-- **transpile_bind_commute.**  For every history, every circuit `c` in it, every parametric
    transpiler `T̂` (any sequence of: wrapper of an inner circuit transpiler, RX→RZ·H, RY→RZ·H,
    Pauli-rotation decomposition) that succeeds on `c`, every parameter values `vals` at which `c`
    binds, and every circuit transpiler `T` that preserves the action (the non-parametric counterpart):
    `T̂(c)` binds at `vals` too and `bind (T̂ c) vals ≈ T (bind c vals)`. -/
theorem transpile_bind_commute (sem : FG K → M) (tb : Tables) (hs : TablesSound sem tb)
    (ops : List (Op K)) (ts : List PT0) (h : Nat) (c : Circ K)
    (hc : (runS tb {} ops).circs[h]? = some c) (c' : LC K) (al' : Alloc K)
    (hr : seqT tb ts c.view (runS tb {} ops).al = .ok (c', al'))
    (T : List (FG K) → List (FG K))
    (hT : ∀ l, PhaseMonoid.equiv (semList sem (T l)) (semList sem l))
    (vals : List K) (out0 : List (FG K)) (h0 : c.view.bind vals = .ok out0) :
    c'.m.inP = c.view.m.inP ∧
    ∃ out1, c'.bind vals = .ok out1 ∧ PhaseMonoid.equiv (semList sem out1) (semList sem (T out0)) := by
  have hw := run_wf tb init_wf ops
  have := seqT_sound sem tb ts (fun t _ => PT0_sound sem tb hs t) _ _ _ _ hw.awf
    (view_wf (hw.circs _ (List.mem_of_getElem? hc))) hr
  obtain ⟨out1, h1, e1⟩ := this.2 vals out0 h0
  exact ⟨this.1.inP, out1, h1, equiv_trans e1 (equiv_symm (hT out0))⟩

/-- `ParametricTranspiler` for an *arbitrary* circuit transpiler `t` (not only the modelled inner
    ones): if `t` preserves the action of every gate list, so does the segment-wise wrapper after binding -/
theorem wrapper_bind_commute (sem : FG K → M) (t : List (FG K) → Except Err (List (FG K)))
    (ht : ∀ seg out, t seg = .ok out → PhaseMonoid.equiv (semList sem out) (semList sem seg)) :
    BindSound sem (wrapT t) := wrapT_sound sem t ht

/-! ## kernel-checked facts about the translated tables (all real angles, exact ring) -/

/-- PauliRotation(ids, φ) = its decomposition (`rot_gates`, CNOT ladders, RZ(φ)), phase included, for all φ
    and all Pauli-id vectors on 1 and 2 qubits, targets ascending and descending.
    `_partial`: the statement for every number of target qubits is not proved (no induction over the
    CNOT ladder); 3 qubits in `Props/C10Deep.lean` (thorough tier), larger sizes by the dense oracle per instance. -/
theorem pauli_rotation_decompose_partial :
    ([1, 2].all fun n => (idVectors n).all fun ids => pauliCase false ids && pauliCase true ids) = true := by
  decide +kernel

/-- the hypotheses of `TablesSound` about 1-qubit rules are what `rewriterCheck` checks (restated here so
    that the obligation set of this property contains them even if the generated file changes shape) -/
theorem translated_rules_checked :
    rewriterCheck QV.Gen.C10.rx2rzh = true ∧ rewriterCheck QV.Gen.C10.ry2rzh = true ∧
    rewriterCheck QV.Gen.C10.pauli = true :=
  ⟨QV.Gen.C10.rx2rzh_rules_ok, QV.Gen.C10.ry2rzh_rules_ok, QV.Gen.C10.pauli_rules_ok⟩

/-- the parametric rewrites are gate for gate the non-parametric decomposers' bodies -/
theorem parametric_matches_nonparametric :
    QV.Gen.C10.rx2rzh.rx = .seq QV.Gen.C10.nrx ∧ QV.Gen.C10.ry2rzh.ry = .seq QV.Gen.C10.nry ∧
    QV.Gen.C10.pauli = ⟨.keep, .keep, .keep, .pauliDecomp⟩ :=
  ⟨QV.Gen.C10.rx2rzh_matches, QV.Gen.C10.ry2rzh_matches, QV.Gen.C10.pauli_shape⟩

/-- Rust `bind_parameters_internal`: every gate kind is rebuilt unchanged, exactly the angle of
    RX / RY / RZ / PauliRotation consumes one value, in gate order -/
theorem rust_bind_arms : QV.Gen.C10.rustBindArms = expectedArms := QV.Gen.C10.rustBindArms_ok

/-! non-vacuity of the hypotheses used above -/

/-- a history with shared and unshared parameters, a plain circuit and a transpiler, on which
    `bind_spec` / `in_params_preserved` / `transpile_bind_commute` speak about real data -/
example : ((runS tb0 ({} : Store Int)
      [.newL 2, .addParams 0 ["a", "a"], .addPar 0 .rx [0] [] (.fn [(1, 2), (CONST, 1)]),
       .addPar 0 .prot [0, 1] [2, 3] (.par 2), .newP 2, .addPar 1 .ry [1] [] (.fn []), .extend 0 (.h 1),
       .tr [.pauli, .rx, .wrap .mark] 0]).circs[2]?.map fun c => (c.view.m.inP, c.bind [1, 2, 3])) =
    some ([1, 2, 5], .ok
      [{ kind := .H, targets := [0] }, { kind := .Z, targets := [0] },
       { kind := .RZ, targets := [0], params := [.val 3] }, { kind := .H, targets := [0] },
       { kind := .RX, targets := [0], params := [.halfPi 1] },
       { kind := .CNOT, controls := [1], targets := [0] }, { kind := .Z, targets := [0] },
       { kind := .RZ, targets := [0], params := [.val 2] }, { kind := .CNOT, controls := [1], targets := [0] },
       { kind := .RX, targets := [0], params := [.halfPi (-1)] }, { kind := .Z, targets := [0] },
       { kind := .RY, targets := [1], params := [.val 3] }]) := by decide

/-- `each_parameter_its_value` on concrete data -/
example : (mkEnv [1, 2] [5, 7] : Dict Int).get? 2 = some 7 := by decide

/-- the success hypothesis of `in_params_preserved` / `transpile_bind_commute` holds on a concrete history -/
example : (step tb0 (runS tb0 ({} : Store Int)
      [.newL 2, .addParams 0 ["a"], .addPar 0 .prot [0, 1] [2, 3] (.par 1)]) (.tr [.pauli, .wrap .idInsert] 0)).2 = none := by
  decide

/-- `TablesSound` is consistent: the one-point monoid satisfies it (the intended instance is unitaries
    modulo phase, for which the hypotheses are the kernel-checked obligations above) -/
instance : PhaseMonoid Unit where
  mul _ _ := ()
  one := ()
  equiv _ _ := True
  mul_assoc _ _ _ := rfl
  one_mul _ := rfl
  mul_one _ := rfl
  equiv_refl _ := trivial
  equiv_symm _ := trivial
  equiv_trans _ _ := trivial
  mul_congr _ _ := trivial

example : TablesSound (K := Int) (M := Unit) (fun _ => ()) tb0 :=
  ⟨fun _ _ _ _ => trivial, fun _ _ _ _ => trivial, fun _ _ _ _ => trivial, fun _ _ _ _ _ => trivial⟩

end QV.Props.C10
