import QuriVerif.Driver.Util
import QuriVerif.Model.C07
namespace QV.Driver
open QV QV.C07

def parseLabel7 (s : String) : C07.Label :=
  let t := s.trimAscii.toString
  if t.isEmpty || t == "I" then [] else
  (t.splitOn ",").filterMap fun t =>
    match t.splitOn ":" with
    | [i, p] => match parseNat? i, parseNat? p with
      | some a, some b => some (a, b)
      | _, _ => none
    | _ => none

def parseLabels7 (s : String) : List C07.Label :=
  let t := s.trimAscii.toString
  if t.isEmpty then [] else (t.splitOn ";").map parseLabel7

def showLabel7 (l : C07.Label) : String :=
  if l.isEmpty then "I" else joinWith "," (l.map fun e => s!"{e.1}:{e.2}")

def showGroups (gs : List (List C07.Label)) : String :=
  joinWith "|" (gs.map fun g => joinWith ";" (g.map showLabel7))

/-- `c07group <bitwise|sorted|individual> | <labels>` -/
def c07group (args : String) : String :=
  match args.splitOn "|" with
  | [s, ls] =>
    let ps := parseLabels7 ls
    match s.trimAscii.toString with
    | "bitwise" => showGroups (bitwiseGrouping ps)
    | "sorted" => showGroups ((sortedInjection ps).map (·.members))
    | "individual" => showGroups (individualGrouping ps)
    | _ => "bad-request"
  | _ => "bad-request"

def c07bsv (args : String) : String :=
  let v := bsv (parseLabel7 args)
  s!"{v.x} {v.z}"

def c07commute (args : String) : String :=
  match args.splitOn "|" with
  | [a, b] => if bitwiseCommute (bsv (parseLabel7 a)) (bsv (parseLabel7 b)) then "true" else "false"
  | _ => "bad-request"

def c07meas (args : String) : String :=
  match measCircuit (parseLabels7 args) with
  | .valueError => "ValueError"
  | .ok gs => "ok " ++ joinWith "," (gs.map fun g => match g with
      | .H q => s!"H{q}" | .Sdag q => s!"Sdag{q}")

def c07rec (args : String) : String :=
  match args.splitOn "|" with
  | [l, b] => match parseNat? b with
    | some bits => if reconstructor (parseLabel7 l) bits then "-1" else "1"
    | none => "bad-request"
  | _ => "bad-request"

end QV.Driver
