import QuriVerif.Driver.Util
import QuriVerif.Model.C14
import QuriVerif.Generated.C14Src
/- line-protocol front end of the C14 model (not part of any theorem).
   Sections of a request are separated by " | "; numbers inside a section by "," or " ".
   A Gaussian integer is `re:im`; a tensor is its row-major flattening. -/
namespace QV.Driver.C14
open QV QV.Driver QV.C14

def sec (s : String) : String := s.trimAscii.toString

def ints (s : String) : Option (List Int) :=
  if (sec s).isEmpty then some [] else ((sec s).splitOn ",").mapM parseInt?

def nats (s : String) : Option (List Nat) :=
  if (sec s).isEmpty then some [] else ((sec s).splitOn ",").mapM parseNat?

def words (s : String) : List String := ((sec s).splitOn " ").filter (fun x => !x.isEmpty)

/-- `-` = None, `[]` = empty list -/
def optInts (s : String) : Option (Option (List Int)) :=
  if sec s == "-" then some none
  else if sec s == "[]" then some (some [])
  else (ints s).map some

def gint (s : String) : Option GInt :=
  match (sec s).splitOn ":" with
  | [a, b] => do some ⟨← parseInt? a, ← parseInt? b⟩
  | [a] => do some ⟨← parseInt? a, 0⟩
  | _ => none

def gints (s : String) : Option (Array GInt) :=
  if (sec s).isEmpty then some #[] else (((sec s).splitOn ",").mapM gint).map List.toArray

def showG (g : GInt) : String := s!"{g.re}:{g.im}"
def showInts' (l : List Int) : String := joinWith "," (l.map toString)

def t2of (n : Nat) (a : Array GInt) : T2 GInt := fun p q => a.getD (p * n + q) 0
def t4of (n : Nat) (a : Array GInt) : T4 GInt := fun p q r s => a.getD (((p * n + q) * n + r) * n + s) 0

def flat2 (r c : Nat) (t : T2 GInt) : String :=
  joinWith "," ((List.range r).flatMap fun p => (List.range c).map fun q => showG (t p q))

def flat4 (n : Nat) (t : T4 GInt) : String :=
  joinWith "," ((List.range n).flatMap fun p => (List.range n).flatMap fun q =>
    (List.range n).flatMap fun r => (List.range n).map fun s => showG (t p q r s))

def showSet (s : ESet GInt) : String :=
  s!"ok {s.dim} | {showG s.const} | {flat2 s.dim s.dim s.h} | {flat4 s.dim s.g}"

/-- tabulation (driver plumbing only): a tensor given as a closure is evaluated once on `[0, n)` and read back from the
    array, so that composed pipelines do not re-evaluate inner stages at every lookup.  The composite model functions are
    definitionally these compositions (`Props.C14.pipeline_compositions`). -/
def tab2 (n : Nat) (t : T2 GInt) : Array GInt :=
  ((List.range n).flatMap fun p => (List.range n).map fun q => t p q).toArray

def tab4 (n : Nat) (t : T4 GInt) : Array GInt :=
  ((List.range n).flatMap fun p => (List.range n).flatMap fun q =>
    (List.range n).flatMap fun r => (List.range n).map fun s => t p q r s).toArray

def memoSet (s : ESet GInt) : ESet GInt :=
  ⟨s.const, t2of s.dim (tab2 s.dim s.h), t4of s.dim (tab4 s.dim s.g), s.dim⟩

def showErr (e : Err) : String := "err " ++ e.name

def showCA (r : Except Err (List Int × List Int)) : String :=
  match r with
  | .error e => showErr e
  | .ok (c, a) => s!"ok {showInts' c}|{showInts' a}"

/-- `cai <nActEle> <nActOrb> <nEle> | <act>` -/
def cai (args : String) : String :=
  match args.splitOn "|" with
  | [hd, act] => match (words hd).mapM parseInt?, optInts act with
    | some [a, o, e], some act => showCA (coreAndActive a o e act)
    | _, _ => "bad-request"
  | _ => "bad-request"

/-- `spinidx <occ> | <act>` -/
def spinidx (args : String) : String :=
  match args.splitOn "|" with
  | [o, a] => match ints o, ints a with
    | some o, some a => let r := toSpinOrbitalIndices o a; s!"{showInts' r.1}|{showInts' r.2}"
    | _, _ => "bad-request"
  | _ => "bad-request"

def parseMOAS (hd act : String) : Option (MO × AS) :=
  match (words hd).mapM parseInt?, optInts act with
  | some [e, sp, ns, ae, ao], some act => some (⟨e, sp, ns⟩, ⟨ae, ao, act⟩)
  | _, _ => none

/-- `asmo <nEle> <spin> <nSpatial> <nActEle> <nActOrb> | <act> | <orb_type queries>` -/
def asmo (args : String) : String :=
  match args.splitOn "|" with
  | [hd, act, qs] => match parseMOAS hd act, ints qs with
    | some (m, a), some qs =>
      match mkASMO m a with
      | .error e => showErr e
      | .ok () =>
        let ty := qs.map fun i => match orbType m a i with
          | .ok t => t.name
          | .error e => e.name
        s!"ok nce={nCoreEle m a} na={nEleAlpha m a} nb={nEleBeta m a} nco={nCoreOrb m a} nvo={nVirOrb m a} " ++
          s!"cao={showCA (getCoreAndActiveOrb m a)} types={joinWith "," ty}"
    | _, _ => "bad-request"
  | _ => "bad-request"

/-- `spin1 <nso> <m> | <h>` / `spin2 <nso> <m> | <g>` -/
def spinReq (four : Bool) (args : String) : String :=
  match args.splitOn "|" with
  | [hd, t] => match (words hd).mapM parseNat?, gints t with
    | some [nso, m], some a =>
      if four then
        match spin2 nso m (t4of m a) with
        | .error e => showErr e
        | .ok r => "ok " ++ flat4 nso r
      else
        match spin1 nso m (t2of m a) with
        | .error e => showErr e
        | .ok r => "ok " ++ flat2 nso nso r
    | _, _ => "bad-request"
  | _ => "bad-request"

/-- `ao2mo1 <n> | <C> | <h>` ; `ao2mo2 <n> | <C> | <A>` -/
def ao2mo (four : Bool) (args : String) : String :=
  match args.splitOn "|" with
  | [hd, c, t] => match parseNat? hd, gints c, gints t with
    | some n, some c, some a =>
      if four then "ok " ++ flat4 n (ao2mo2 GInt.conj n (t2of n c) (t4of n a))
      else "ok " ++ flat2 n n (ao2mo1 GInt.conj n (t2of n c) (t2of n a))
    | _, _, _ => "bad-request"
  | _ => "bad-request"

/-- `effE <n> | <ec> | <h> | <g> | <core>` -/
def effE (args : String) : String :=
  match args.splitOn "|" with
  | [hd, ec, h, g, core] => match parseNat? hd, gint ec, gints h, gints g, nats core with
    | some n, some ec, some h, some g, some core =>
      "ok " ++ showG (effCoreEnergy ec (t2of n h) (t4of n g) core)
    | _, _, _, _, _ => "bad-request"
  | _ => "bad-request"

/-- `eff1 <n> | <h> | <g> | <core> | <act>` -/
def eff1 (args : String) : String :=
  match args.splitOn "|" with
  | [hd, h, g, core, act] => match parseNat? hd, gints h, gints g, nats core, nats act with
    | some n, some h, some g, some core, some act =>
      "ok " ++ flat2 act.length act.length (effOneBody n (t2of n h) (t4of n g) core act)
    | _, _, _, _, _ => "bad-request"
  | _ => "bad-request"

/-- `eff2 <n> | <g> | <act>` -/
def eff2 (args : String) : String :=
  match args.splitOn "|" with
  | [hd, g, act] => match parseNat? hd, gints g, nats act with
    | some n, some g, some act => "ok " ++ flat4 act.length (effTwoBody (t4of n g) act)
    | _, _, _ => "bad-request"
  | _ => "bad-request"

/-- `asidx <n> | <const> | <h> | <g> | <core ints> | <act ints>` : the index-list form incl. negative / out-of-range indices -/
def asidx (args : String) : String :=
  match args.splitOn "|" with
  | [hd, c, h, g, core, act] => match parseNat? hd, gint c, gints h, gints g, ints core, ints act with
    | some n, some c, some h, some g, some core, some act =>
      match activeSpaceSpatialIdx ⟨c, t2of n h, t4of n g, n⟩ core act with
      | .error e => showErr e
      | .ok s => showSet s
    | _, _, _, _, _, _ => "bad-request"
  | _ => "bad-request"

/-- `pipe <kind> <n> | <nEle> <spin> <nSpatial> <nActEle> <nActOrb> | <act> | <C> | <const> | <h> | <g>` -/
def pipe (args : String) : String :=
  match args.splitOn "|" with
  | [hd, mo, act, c, k, h, g] =>
    match words hd, parseMOAS mo act, gints c, gint k, gints h, gints g with
    | [kind, n], some (m, a), some c, some k, some h, some g =>
      match parseNat? n with
      | none => "bad-request"
      | some n =>
        let s : ESet GInt := ⟨k, t2of n h, t4of n g, n⟩
        let C := t2of n c
        let out (r : Except Err (ESet GInt)) : String := match r with
          | .error e => showErr e
          | .ok s => showSet s
        match kind with
        | "mo_spatial" => out (activeSpaceSpatialFromMO m a s)
        | "mo_spin" => out ((activeSpaceSpatialFromMO m a s).map fun r => toSpinSet (memoSet r))
        | "to_spin" => showSet (toSpinSet s)
        | "ao_full_spatial" => showSet (fullSpaceSpatialFromAO GInt.conj C s)
        | "ao_full_spin" => showSet (toSpinSet (memoSet (fullSpaceSpatialFromAO GInt.conj C s)))
        | "ao_as_spatial" => out (activeSpaceSpatialFromMO m a (memoSet (fullSpaceSpatialFromAO GInt.conj C s)))
        | "ao_as_spin" =>
          out ((activeSpaceSpatialFromMO m a (memoSet (fullSpaceSpatialFromAO GInt.conj C s))).map fun r => toSpinSet (memoSet r))
        | _ => "bad-request"
    | _, _, _, _, _, _ => "bad-request"
  | _ => "bad-request"

/-- `ferm <n> | <const> | <h> | <g>` -/
def ferm (args : String) : String :=
  match args.splitOn "|" with
  | [hd, k, h, g] => match parseNat? hd, gint k, gints h, gints g with
    | some n, some k, some h, some g => showSet (fermionicHamiltonian GInt.half ⟨k, t2of n h, t4of n g, n⟩)
    | _, _, _, _ => "bad-request"
  | _ => "bad-request"

/-- `dete <n> | <c> | <one> | <two> | <D>` : the Slater–Condon diagonal rule of the model (cross-checked against the oracle) -/
def dete (args : String) : String :=
  match args.splitOn "|" with
  | [hd, c, h, g, d] => match parseNat? hd, gint c, gints h, gints g, nats d with
    | some n, some c, some h, some g, some d => "ok " ++ showG (detEnergy c (t2of n h) (t4of n g) d)
    | _, _, _, _, _ => "bad-request"
  | _ => "bad-request"

def dispatch (line : String) : String :=
  let l := line.trimAscii.toString
  match l.splitOn " " with
  | cmd :: rest =>
    let args := " ".intercalate rest
    match cmd with
    | "cai" => cai args
    | "spinidx" => spinidx args
    | "asmo" => asmo args
    | "spin1" => spinReq false args
    | "spin2" => spinReq true args
    | "ao2mo1" => ao2mo false args
    | "ao2mo2" => ao2mo true args
    | "effE" => effE args
    | "eff1" => eff1 args
    | "eff2" => eff2 args
    | "asidx" => asidx args
    | "pipe" => pipe args
    | "ferm" => ferm args
    | "dete" => dete args
    | "shape" => if QV.Gen.C14.srcDiff.isEmpty then "ok" else "diff " ++ joinWith "," QV.Gen.C14.srcDiff
    | _ => "bad-request"
  | [] => "bad-request"

end QV.Driver.C14
