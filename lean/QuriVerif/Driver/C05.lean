import QuriVerif.Model.C05
/- line-protocol front end of the C05 model (not part of any theorem)

   encodings:  label pairs  `i.o,i.o`  (`-` = empty);   K  `re:im`;
               operator     `re:im@pairs&re:im@pairs`   (`-` = empty);
               string       code points `88,48,32`      (`-` = empty)
-/
namespace QV.Driver.C05
open QV.C05

def trim (s : String) : String := s.trimAscii.toString
def nat? (s : String) : Option Nat := (trim s).toNat?
def int? (s : String) : Option Int := (trim s).toInt?
def joinWith (sep : String) (xs : List String) : String := sep.intercalate xs

def parsePairs (s : String) : Option (List (Nat × Nat)) :=
  if trim s == "-" || (trim s).isEmpty then some [] else
  ((trim s).splitOn ",").mapM fun x =>
    match x.splitOn "." with
    | [i, p] => do some (← nat? i, ← nat? p)
    | _ => none

def parseNats (s : String) : Option (List Nat) :=
  if trim s == "-" || (trim s).isEmpty then some [] else ((trim s).splitOn ",").mapM nat?

def parseK (s : String) : Option K :=
  match (trim s).splitOn ":" with
  | [a, b] => do some ⟨← int? a, ← int? b⟩
  | _ => none

def showK (k : K) : String := s!"{k.re}:{k.im}"
def showLabel (l : Label) : String :=
  if l.isEmpty then "-" else joinWith "," (l.map fun e => s!"{e.1}.{e.2.code}")
def showOp (o : Op) : String :=
  if o.isEmpty then "-" else joinWith "&" (o.map fun e => showK e.2 ++ "@" ++ showLabel e.1)
def showChars (cs : List Char) : String :=
  if cs.isEmpty then "-" else joinWith "," (cs.map fun c => toString c.toNat)
def parseChars (s : String) : Option (List Char) := (parseNats s).map (·.map Char.ofNat)

def showLabelFull (l : Label) : String :=
  s!"{showLabel l} {showChars (toStr l)} {if decide (Valid l) then 1 else 0}"

def showLab (r : Except Err Label) : String :=
  match r with
  | .ok l => "ok " ++ showLabelFull l
  | .error e => "err " ++ e.name

/-- a label operand of an operator: must be constructible -/
def parseLabel (s : String) : Option Label :=
  match parsePairs s with
  | some ps => match mkLabel ps with | .ok l => some l | .error _ => none
  | none => none

def parseTermK (s : String) : Option (Label × K) :=
  match (trim s).splitOn "@" with
  | [c, l] => do some (← parseLabel l, ← parseK c)
  | _ => none

/-- pair list handed to `Operator({...})` -/
def parseOpPairs (s : String) : Option (List (Label × K)) :=
  if trim s == "-" || (trim s).isEmpty then some [] else ((trim s).splitOn "&").mapM parseTermK

def c05mk (a : String) : String :=
  match parsePairs a with | some ps => showLab (mkLabel ps) | none => "bad-request"

def c05lists (a : String) : String :=
  match a.splitOn " " with
  | [x, y] => match parseNats x, parseNats y with
    | some i, some o => showLab (fromLists i o)
    | _, _ => "bad-request"
  | _ => "bad-request"

def c05str (a : String) : String :=
  match parseChars a with | some cs => showLab (fromStr cs) | none => "bad-request"

def c05prod (a : String) : String :=
  match a.splitOn " " with
  | [x, y] => match parseLabel x, parseLabel y with
    | some p, some q => let r := pauliProduct p q; s!"{showLabel r.1} {r.2}"
    | _, _ => "bad-request"
  | _ => "bad-request"

def c05bsv (a : String) : String :=
  match parseLabel a with
  | some l => let s := bsv l; s!"{s.x} {s.z} {s.ph}"
  | none => "bad-request"

/-- program over a heap of operator objects; commands separated by `;` -/
def progStep (h : List Op) (cmd : String) : Option (List Op × Option Err) :=
  let ok (h : List Op) : Option (List Op × Option Err) := some (h, none)
  let var (s : String) : Option Nat := do let i ← nat? s; if i < h.length then some i else none
  match (trim cmd).splitOn " " with
  | ["new", o] => do ok (h ++ [ofPairs (← parseOpPairs o)])
  | ["copy", i] => do ok (h ++ [hget h (← var i)])
  | ["add", i, j] => do ok (h ++ [add (hget h (← var i)) (hget h (← var j))])
  | ["sub", i, j] => do ok (h ++ [sub (hget h (← var i)) (hget h (← var j))])
  | ["mul", i, j] => do ok (h ++ [mul (hget h (← var i)) (hget h (← var j))])
  | ["comm", i, j] => do ok (h ++ [commutator (hget h (← var i)) (hget h (← var j))])
  | ["smul", i, k] => do ok (h ++ [smul (← parseK k) (hget h (← var i))])
  | ["div", i, k] => do ok (h ++ [idiv (hget h (← var i)) (← parseK k)])
  | ["herm", i] => do ok (h ++ [herm (hget h (← var i))])
  | ["iadd", i, j] => do some (stepReal h (.iadd (← var i) (← var j)))
  | ["isub", i, j] => do some (stepReal h (.isub (← var i) (← var j)))
  | ["idiv", i, k] => do some (stepReal h (.idiv (← var i) (← parseK k)))
  | ["addterm", i, l, c] => do some (stepReal h (.addTerm (← var i) (← parseLabel l) (← parseK c)))
  | ["setconst", i, c] => do some (stepReal h (.setConst (← var i) (← parseK c)))
  | ["setitem", i, l, c] => do some (stepReal h (.setItem (← var i) (← parseLabel l) (← parseK c)))
  | _ => none

def progRun : List Op → List String → Option (List Op × Option Err)
  | h, [] => some (h, none)
  | h, c :: cs =>
    match progStep h c with
    | none => none
    | some (h', none) => progRun h' cs
    | some (h', some e) => some (h', some e)

def showHeap (h : List Op) : String :=
  joinWith " | " (h.map fun o => s!"{showOp o} {showK (constant o)}")

def c05prog (a : String) : String :=
  match progRun [] ((a.splitOn ";").filter fun s => !(trim s).isEmpty) with
  | none => "bad-request"
  | some (h, none) => "ok " ++ showHeap h
  | some (h, some e) => "err " ++ e.name ++ " " ++ showHeap h

def entries (f : Nat → Nat → K) (dim : Nat) : String :=
  joinWith "," ((List.range dim).flatMap fun m => (List.range dim).map fun n => showK (f m n))

/-- `c05mat <op> <n|-> `: sparse export -/
def c05mat (a : String) : String :=
  match a.splitOn " " with
  | [o, n] =>
    match parseOpPairs o with
    | none => "bad-request"
    | some ps =>
      let n? := nat? n
      match sparseOp (ofPairs ps) n? with
      | .error e => "err " ++ e.name
      | .ok (k, f) => s!"ok {k} " ++ entries f (2 ^ k)
  | _ => "bad-request"

/-- `c05labmat <pairs> <n|->`: sparse export of a label -/
def c05labmat (a : String) : String :=
  match a.splitOn " " with
  | [l, n] =>
    match parseLabel l with
    | none => "bad-request"
    | some l =>
      match nat? n with
      | none =>
        if l.isEmpty then "err assertion" else
        match sparseLabel l (bound l) with
        | .error e => "err " ++ e.name
        | .ok f => s!"ok {bound l} " ++ entries f (2 ^ bound l)
      | some k =>
        match sparseLabel l k with
        | .error e => "err " ++ e.name
        | .ok f => s!"ok {k} " ++ entries f (2 ^ k)
  | _ => "bad-request"

/-- `c05tamp <op> <k>`: transition amplitudes of the code's formula for all m, n < 2^k -/
def c05tamp (a : String) : String :=
  match a.splitOn " " with
  | [o, n] =>
    match parseOpPairs o, nat? n with
    | some ps, some k => let r := tampRepr (ofPairs ps); "ok " ++ entries (tamp r) (2 ^ k)
    | _, _ => "bad-request"
  | _ => "bad-request"

/-- `c05amp <op> <k>`: the specification `<m|O|n>` -/
def c05amp (a : String) : String :=
  match a.splitOn " " with
  | [o, n] =>
    match parseOpPairs o, nat? n with
    | some ps, some k => "ok " ++ entries (amp (ofPairs ps)) (2 ^ k)
    | _, _ => "bad-request"
  | _ => "bad-request"

def dispatch (line : String) : String :=
  let l := trim line
  match l.splitOn " " with
  | cmd :: rest =>
    let args := " ".intercalate rest
    match cmd with
    | "c05mk" => c05mk args
    | "c05lists" => c05lists args
    | "c05str" => c05str args
    | "c05prod" => c05prod args
    | "c05bsv" => c05bsv args
    | "c05prog" => c05prog args
    | "c05mat" => c05mat args
    | "c05labmat" => c05labmat args
    | "c05tamp" => c05tamp args
    | "c05amp" => c05amp args
    | _ => "bad-request"
  | [] => "bad-request"

end QV.Driver.C05
