import QuriVerif.Driver.Util
import QuriVerif.Model.C19
/- line-protocol front end of the C19 model (not part of any theorem) -/
namespace QV.Driver.C19
open QV QV.Driver QV.C19

/-- inst: `p<op>:q,q` or `c<idx>:q,q` -/
def parseInst (s : String) : Option Inst :=
  let s := s.trimAscii.toString
  match s.splitOn ":" with
  | [h, qs] =>
    let n := (h.drop 1).toString
    if h.startsWith "p" then (parseNat? n).map fun o => Inst.prim o (parseNatList qs)
    else if h.startsWith "c" then (parseNat? n).map fun c => Inst.call c (parseNatList qs)
    else none
  | _ => none

/-- sub: `nArgs nAux inst;inst;...` -/
def parseSub (s : String) : Option Sub :=
  match (s.trimAscii.toString.splitOn " ").filter (· ≠ "") with
  | [a, x] => match parseNat? a, parseNat? x with
    | some a, some x => some ⟨a, x, []⟩
    | _, _ => none
  | [a, x, b] => match parseNat? a, parseNat? x, (b.splitOn ";").mapM parseInst with
    | some a, some x, some body => some ⟨a, x, body⟩
    | _, _, _ => none
  | _ => none

/-- program: `root | sub0 | sub1 | ...` -/
def parseProgram (s : String) : Option Program :=
  match (s.splitOn "|").mapM parseSub with
  | some (r :: t) => some ⟨t, r⟩
  | _ => none

def showErr : Err → String
  | .recursion => "recursion" | .unlinked => "unlinked" | .key => "key" | .fuel => "fuel"

def showGate (g : GateI) : String := s!"{g.op}:{showNats g.qs}"
def showGates (gs : List GateI) : String := joinWith ";" (gs.map showGate)

def parseGate (s : String) : Option GateI :=
  match s.trimAscii.toString.splitOn ":" with
  | [o, qs] => (parseNat? o).map fun o => ⟨o, parseNatList qs⟩
  | _ => none

def parseGates (s : String) : Option (List GateI) :=
  if s.trimAscii.toString.isEmpty then some [] else (s.trimAscii.toString.splitOn ";").mapM parseGate

def showRes (r : Except Err (List GateI)) : String :=
  match r with
  | .ok gs => "ok " ++ showGates gs
  | .error e => "err " ++ showErr e

def showNatRes (r : Except Err Nat) : String :=
  match r with
  | .ok n => s!"ok {n}"
  | .error e => "err " ++ showErr e

def showInst : Inst → String
  | .prim o qs => s!"p{o}:{showNats qs}"
  | .call c qs => s!"c{c}:{showNats qs}"
def showSub (S : Sub) : String := s!"{S.nArgs} {S.nAux} {joinWith ";" (S.body.map showInst)}"
def showProgram (p : Program) : String := joinWith " | " ((p.root :: p.table).map showSub)

/-- `c19all <nOps> / <filter ops> / <program>` : every observable of the model on one program -/
def c19all (args : String) : String :=
  match args.splitOn "/" with
  | [nops, filt, prog] =>
    match parseNat? nops, parseProgram prog with
    | some nOps, some p =>
      let f := parseNatList filt
      let ev := eval p
      let ex := expand p
      let cE := match ev with | .ok gs => showGates (canon p.root.nArgs gs) | .error _ => "-"
      let counts := joinWith "," ((List.range nOps).map fun t =>
        match gateCount f t p with | .ok n => toString n | .error e => showErr e)
      joinWith " # " [showRes ev, showRes ex, cE, showNatRes (auxCount p), toString (peak p),
        toString (WF p), toString (Acyclic p), counts]
    | _, _ => "bad-request"
  | _ => "bad-request"

/-- `c19flat <nArgs> / <σ> / <gates>` : evaluation of the flat expanded sub and its canonical form -/
def c19flat (args : String) : String :=
  match args.splitOn "/" with
  | [na, sg, gs] =>
    match parseNat? na, parseGates gs with
    | some n, some gates =>
      let r := evalFlat n (parseNatList sg) gates
      let c := match r with | .ok g => showGates (canon n g) | .error _ => "-"
      showRes r ++ " # " ++ c
    | _, _ => "bad-request"
  | _ => "bad-request"

/-- `c19inv <swap pairs a-b,c-d> / <program>` , `c19ctl <offset> / <program>` : transformed programs -/
def pairTable (s : String) : List (Nat × Nat) :=
  (s.trimAscii.toString.splitOn ",").filterMap fun x =>
    match x.splitOn "-" with
    | [a, b] => match parseNat? a, parseNat? b with
      | some a, some b => some (a, b)
      | _, _ => none
    | _ => none

def c19inv (args : String) : String :=
  match args.splitOn "/" with
  | [tb, prog] =>
    match parseProgram prog with
    | some p => let t := pairTable tb; showProgram (invProgram (fun o => tr t o) p)
    | none => "bad-request"
  | _ => "bad-request"

def c19ctl (args : String) : String :=
  match args.splitOn "/" with
  | [off, prog] =>
    match parseNat? off, parseProgram prog with
    | some k, some p => showProgram (ctlProgram (· + k) p)
    | _, _ => "bad-request"
  | _ => "bad-request"

/-- hsub: `nArgs nAux o:q,q;o:q` or `-` -/
def parseHSub (s : String) : Option (Option HSub) :=
  let t := s.trimAscii.toString
  if t == "-" then some none else
  match (t.splitOn " ").filter (· ≠ "") with
  | [a, x] => match parseNat? a, parseNat? x with
    | some a, some x => some (some ⟨a, x, []⟩)
    | _, _ => none
  | [a, x, b] =>
    match parseNat? a, parseNat? x, (b.splitOn ";").mapM (fun i => match i.splitOn ":" with
        | [o, qs] => (parseNat? o).map fun o => (o, parseNatList qs)
        | _ => none) with
    | some a, some x, some body => some (some ⟨a, x, body⟩)
    | _, _, _ => none
  | _ => none

/-- `c19compile <1 = compile_sub | 0 = Linker> / <prims> / <root hsub> / <hsub0 | hsub1 | - | ...>` -/
def c19compile (args : String) : String :=
  match args.splitOn "/" with
  | [via, pr, root, subs] =>
    match parseHSub root, (subs.splitOn "|").mapM parseHSub with
    | some (some r), some ss =>
      match compileH ⟨parseNatList pr, ss, r⟩ (via.trimAscii.toString == "1") with
      | .ok p => "ok " ++ showProgram p
      | .error e => "err " ++ showErr e
    | _, _ => "bad-request"
  | _ => "bad-request"

def dispatch (line : String) : String :=
  let l := line.trimAscii.toString
  match l.splitOn " " with
  | cmd :: rest =>
    let args := " ".intercalate rest
    match cmd with
    | "c19all" => c19all args
    | "c19compile" => c19compile args
    | "c19flat" => c19flat args
    | "c19inv" => c19inv args
    | "c19ctl" => c19ctl args
    | _ => "bad-request"
  | [] => "bad-request"

end QV.Driver.C19
