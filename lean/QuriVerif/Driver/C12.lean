import QuriVerif.Driver.Util
import QuriVerif.Model.C12
namespace QV.Driver
open QV QV.C12

/-- `c12fold <p> <q> <n> <left|right|list:i,j,..>` → `k a | selected indices | folded sequence`
    where the folded sequence lists `i` for gate i and `-i-1` for its inverse -/
def c12fold (args : String) : String :=
  match args.trimAscii.toString.splitOn " " with
  | [ps, qs, ns, m] =>
    match parseNat? ps, parseNat? qs, parseNat? ns with
    | some p, some q, some n =>
      if q == 0 || p < q then "err ValueError" else
      let k := numFoldAll p q
      let a := residual p q n
      let added : List Nat :=
        if m == "left" then foldingLeft p q n
        else if m == "right" then foldingRight p q n
        else parseNatList ((m.splitOn ":").getD 1 "")
      let c : List Int := (List.range n).map Int.ofNat
      let out := foldCircuit (fun (g : Int) => -g - 1) k added c
      s!"{k} {a} | {showNats added} | {showInts out}"
    | _, _, _ => "bad-request"
  | _ => "bad-request"

end QV.Driver
