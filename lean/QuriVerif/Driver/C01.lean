import QuriVerif.Driver.Util
import QuriVerif.Model.C01
import QuriVerif.Generated.C01Templates
import QuriVerif.Generated.C01Ladders
import QuriVerif.Generated.C01Tables
import QuriVerif.Model.StdEnv
namespace QV.Driver
open QV QV.C01

def parseGate (s : String) : Option NGate :=
  match s.splitOn "/" with
  | [k, c, t, p, ids] =>
    match Kind.ofName? k.trimAscii.toString with
    | some kind => some { kind := kind, controls := parseNatList c, targets := parseNatList t,
                          params := parseIntList p, paulis := parseNatList ids }
    | none => none
  | _ => none

def parseCircuit (s : String) : Option (List NGate) :=
  if s.trimAscii.toString.isEmpty then some [] else
  (s.trimAscii.toString.splitOn ";").mapM parseGate

def showGate (g : NGate) : String :=
  s!"{g.kind.name}/{showNats g.controls}/{showNats g.targets}/{showInts g.params}/{showNats g.paulis}"

def showCircuit (c : List NGate) : String := joinWith ";" (c.map showGate)

def parsePass (s : String) : Option Pass :=
  match s.trimAscii.toString.splitOn ":" with
  | ["decomp", names] => some (.decomp (parseStrs names))
  | ["fuseRot"] => some .fuseRot
  | ["fuseCHC"] => some .fuseCHC
  | ["normalize", lo] => (parseInt? lo).map .normalize
  | ["ladder", alt, names] => (parseNat? alt).map fun a => .ladder (parseStrs names) a
  | ["clifConv", ks] => some (.clifConv (parseKinds ks))
  | ["idElim"] => some .idElim
  | ["idInsert", n] => (parseNat? n).map .idInsert
  | ["pauliDec"] => some .pauliDec
  | ["pauliRotDec"] => some .pauliRotDec
  | ["um1"] => some .um1
  | ["um2"] => some .um2
  | ["cnotRzRzz"] => some .cnotRzRzz
  | ["rotConv", r, f] => some (.rotConv (parseKinds r) (parseKinds f))
  | ["gateSetConv", v, ks] => some (.gateSetConv (parseKinds ks) (v.trimAscii.toString == "1"))
  | _ => none

def showKinds (ks : List Kind) : String := joinWith "," (ks.map (·.name))

def showPass : Pass → String
  | .decomp names => s!"decomp:{joinWith "," names}"
  | .fuseRot => "fuseRot" | .fuseCHC => "fuseCHC"
  | .normalize lo => s!"normalize:{lo}"
  | .ladder names alt => s!"ladder:{alt}:{joinWith "," names}"
  | .clifConv ks => s!"clifConv:{showKinds ks}"
  | .idElim => "idElim" | .idInsert n => s!"idInsert:{n}" | .pauliDec => "pauliDec" | .pauliRotDec => "pauliRotDec"
  | .um1 => "um1" | .um2 => "um2" | .cnotRzRzz => "cnotRzRzz" | .cliffApprox => "cliffApprox"
  | .rotConv r f => s!"rotConv:{showKinds r}:{showKinds f}"
  | .gateSetConv ks v => s!"gateSetConv:{if v then "1" else "0"}:{showKinds ks}"


/-- `c01pass <nq> | <pass;pass;...> | <circuit>` -/
def c01pass (args : String) : String :=
  match args.splitOn "|" with
  | [nq, ps, circ] =>
    match parseNat? nq, (ps.trimAscii.toString.splitOn ";").mapM parsePass, parseCircuit circ with
    | some _, some passes, some c =>
      match runSeq stdEnv stdFuel passes c with
      | .ok r => "ok " ++ showCircuit r
      | .error m => "err " ++ m
    | _, _, _ => "bad-request"
  | _ => "bad-request"

/-- `c01pipeline <kinds>` : the pass list GateSetConversion builds for a target set -/
def c01pipeline (args : String) : String :=
  joinWith ";" ((gateSetPipeline (parseKinds args)).map showPass)

def c01rotpipeline (args : String) : String :=
  match args.splitOn "|" with
  | [r, f] => joinWith ";" ((rotConvPipeline (parseKinds r) (parseKinds f)).map showPass)
  | _ => "bad-request"

/-- `c01approx <circuit>` : CliffordApproximation's rounding of rotation gates -/
def c01approx (args : String) : String :=
  match parseCircuit args with
  | some c => "ok " ++ showCircuit (c.map approxRot)
  | none => "bad-request"

/-- `gatemat <gate>` with symbolic parameters φ0.. : local matrix and scale exponent -/
def gatemat (args : String) : String :=
  match parseGate args with
  | some g =>
    let gg : Gate := { kind := g.kind, controls := g.controls, targets := g.targets,
                       params := (List.range g.params.length).map Angle.var, paulis := g.paulis }
    let m := gg.localMat
    s!"{m.k}|{matToStr m.m}"
  | none => "bad-request"

end QV.Driver
