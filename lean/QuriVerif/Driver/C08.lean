import QuriVerif.Driver.Util
import QuriVerif.Model.C08
/- line-protocol front end of the C08 model (not part of any theorem) -/
namespace QV.Driver.C08
open QV QV.Driver QV.C08

def parseRat? (s : String) : Option Rat :=
  match s.trimAscii.toString.splitOn "/" with
  | [n] => (parseInt? n).map fun i => (i : Rat)
  | [n, d] => do
    let i ← parseInt? n
    let k ← parseNat? d
    if k = 0 then none else some (mkRat i k)
  | _ => none

def showRat (r : Rat) : String := s!"{r.num}/{r.den}"

def showR {α} (f : α → String) : R α → String
  | .ok a => "ok " ++ f a
  | .error e => "err " ++ e.name

def parseList {α} (f : String → Option α) (sep : String) (s : String) : Option (List α) :=
  if s.trimAscii.toString.isEmpty || s.trimAscii.toString == "-" then some []
  else (s.trimAscii.toString.splitOn sep).mapM f

def parseNats (s : String) : Option (List Nat) := parseList parseNat? "," s

/-- `id:re:im` -/
def parseTerm (s : String) : Option (Nat × C) :=
  match s.trimAscii.toString.splitOn ":" with
  | [i, re, im] => do some (← parseNat? i, ⟨← parseRat? re, ← parseRat? im⟩)
  | _ => none

/-- `bits:count` -/
def parseCount (s : String) : Option (Nat × Rat) :=
  match s.trimAscii.toString.splitOn ":" with
  | [b, c] => do some (← parseNat? b, ← parseRat? c)
  | _ => none

/-- `group:pauli:bits:sign` -/
def parseRec (s : String) : Option ((Nat × Nat × Nat) × Int) :=
  match s.trimAscii.toString.splitOn ":" with
  | [g, p, b, v] => do some ((← parseNat? g, ← parseNat? p, ← parseNat? b), ← parseInt? v)
  | _ => none

def tableRec (tab : List ((Nat × Nat × Nat) × Int)) (g p bits : Nat) : Int :=
  match tab.lookup (g, p, bits) with
  | some v => v
  | none => 0

def parseShots (s : String) : Option (R (List Nat)) :=
  let t := s.trimAscii.toString
  if t.startsWith "err " then
    match (t.drop 4).trimAscii.toString with
    | "ZeroDivisionError" => some (.error .zeroDivision)
    | "ValueError" => some (.error .valueError)
    | "KeyError" => some (.error .keyError)
    | _ => none
  else (parseNats t).map .ok

def parseMode (s : String) : Option PairMode :=
  match s.trimAscii.toString with
  | "all" => some .all
  | "positive" => some .positive
  | _ => none

def fields (args : String) : List String := (args.splitOn "|").map (·.trimAscii.toString)

/-- `c08alloc equi | n | total | u`, `c08alloc prop | ws | total | u`,
    `c08alloc wr | ws | u | draw`, `c08alloc wrcheck | ws | total | u | out` -/
def alloc (args : String) : String :=
  match fields args with
  | ["equi", n, t, u] =>
    match parseNat? n, parseNat? t, parseNat? u with
    | some n, some t, some u => showR showNats (equipartition n t u)
    | _, _, _ => "bad-request"
  | ["prop", ws, t, u] =>
    match parseNats ws, parseNat? t, parseNat? u with
    | some ws, some t, some u => showR showNats (proportional ws t u)
    | _, _, _ => "bad-request"
  | ["wr", ws, u, d] =>
    match parseNats ws, parseNat? u, parseNats d with
    | some ws, some u, some d => showR showNats (weightedRandom ws u d)
    | _, _, _ => "bad-request"
  | ["wrcheck", ws, t, u, out] =>
    match parseNats ws, parseNat? t, parseNat? u, parseNats out with
    | some ws, some t, some u, some out =>
      match weightedRandom ws u [] with
      | .error e => "err " ++ e.name
      | .ok _ => if wrAdmissible ws t u out then "ok 1" else "ok 0"
    | _, _, _, _ => "bad-request"
  | _ => "bad-request"

/-- `c08dist n | order | alloc` -/
def dist (args : String) : String :=
  match fields args with
  | [n, o, a] =>
    match parseNat? n, parseNats o, parseNats a with
    | some n, some o, some a => showR showNats (distribute n o a)
    | _, _, _ => "bad-request"
  | _ => "bad-request"

def showC (c : C) : String := showRat c.re ++ " " ++ showRat c.im

/-- `c08est mode | op | factory groups | shots or err | recon table | delivered counts`
    groups `;`-separated lists of label numbers; delivered `;`-separated dicts (`-` = empty dict) -/
def est (args : String) : String :=
  match fields args with
  | [mode, op, groups, shots, recs, delivered] =>
    let r : Option String := do
      let mode ← parseMode mode
      let op ← parseList parseTerm "," op
      let gs ← if groups.isEmpty then some [] else (groups.splitOn ";").mapM parseNats
      let shots ← parseShots shots
      let tab ← parseList parseRec "," recs
      let del ← if delivered.isEmpty then some [] else (delivered.splitOn ";").mapM (parseList parseCount ",")
      -- the reconstructor table is indexed by the position in the *factory* list
      let fg : List Meas := (gs.zipIdx 0).map fun p => ⟨p.1, tableRec tab p.2⟩
      let pairs := match shots with
        | .ok s => joinWith "," ((prepPairs s).map fun (p : Nat × Nat) => s!"{p.1}:{p.2}")
        | .error _ => ""
      let v := samplingEstimate mode op fg (fun _ => shots) (fun _ => del)
      some s!"pairs={pairs} value={showR showC v}"
    r.getD "bad-request"
  | _ => "bad-request"

/-- `c08exp isId | table bits:sign,… | counts` : `general_pauli_expectation_estimator` alone -/
def exp (args : String) : String :=
  match fields args with
  | [isId, tab, counts] =>
    let r : Option String := do
      let t ← parseList (fun s => match s.splitOn ":" with
        | [b, v] => do some (← parseNat? b, ← parseInt? v)
        | _ => none) "," tab
      let c ← parseList parseCount "," counts
      let recon : Nat → Int := fun b => (t.lookup b).getD 0
      some (showR showRat (pauliExp recon (isId == "1") c))
    r.getD "bad-request"
  | _ => "bad-request"

def dispatch (line : String) : String :=
  let l := line.trimAscii.toString
  match l.splitOn " " with
  | cmd :: rest =>
    let args := " ".intercalate rest
    match cmd with
    | "c08alloc" => alloc args
    | "c08dist" => dist args
    | "c08est" => est args
    | "c08exp" => exp args
    | _ => "bad-request"
  | [] => "bad-request"

end QV.Driver.C08
