import QuriVerif.Driver.C01
import QuriVerif.Driver.C12
import QuriVerif.Driver.C06
import QuriVerif.Driver.C07
namespace QV.Driver

def dispatch (line : String) : String :=
  let l := line.trimAscii.toString
  match l.splitOn " " with
  | cmd :: rest =>
    let args := " ".intercalate rest
    match cmd with
    | "c01pass" => c01pass args
    | "c01pipeline" => c01pipeline args
    | "c01rotpipeline" => c01rotpipeline args
    | "c01approx" => c01approx args
    | "gatemat" => gatemat args
    | "c12fold" => c12fold args
    | "c06conj" => c06conj args
    | "c07group" => c07group args
    | "c07bsv" => c07bsv args
    | "c07commute" => c07commute args
    | "c07meas" => c07meas args
    | "c07rec" => c07rec args
    | _ => "bad-request"
  | [] => "bad-request"

end QV.Driver
