import QuriVerif.Driver.C01
namespace QV.Driver

def dispatch (line : String) : String :=
  let l := line.trimAscii.toString
  match l.splitOn " " with
  | cmd :: rest =>
    let args := " ".intercalate rest
    match cmd with
    | "c01pass" => c01pass args
    | "c01pipeline" => c01pipeline args
    | "c01rotpipeline" => c01rotpipeline args
    | "c01approx" => c01approx args
    | "gatemat" => gatemat args
    | _ => "bad-request"
  | [] => "bad-request"

end QV.Driver
