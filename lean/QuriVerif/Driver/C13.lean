import QuriVerif.Driver.Util
import QuriVerif.Model.C13
/- line-protocol front end of the C13 model (not part of any theorem) -/
namespace QV.Driver.C13
open QV QV.Driver QV.C13

def parseArr (s : String) : Option BArr :=
  match s.trimAscii.toString.splitOn ":" with
  | [b, l] => do some ⟨← parseNat? b, ← parseNat? l⟩
  | _ => none

def parseRows (s : String) : Option (List BArr) :=
  if s.trimAscii.toString.isEmpty || s.trimAscii.toString == "-" then some []
  else (s.trimAscii.toString.splitOn ",").mapM parseArr

def showArr (a : BArr) : String := s!"{a.b}:{a.len}"
def showRows (m : List BArr) : String := joinWith "," (m.map showArr)

def showR {α} (f : α → String) : R α → String
  | .ok a => "ok " ++ f a
  | .error e => "err " ++ e.name

def showBool (b : Bool) : String := if b then "1" else "0"

def parseOptNat (s : String) : Option (Option Nat) :=
  if s.trimAscii.toString == "-" then some none else (parseNat? s).map some
def parseOptInt (s : String) : Option (Option Int) :=
  if s.trimAscii.toString == "-" then some none else (parseInt? s).map some

def parseKind (s : String) : Option MapKind :=
  match s.trimAscii.toString with
  | "jw" => some .jw | "bk" => some .bk | "scbk" => some .scbk | _ => none

/-- term: `coef@idx.p,idx.p` -/
def parseTerm (s : String) : Option PTerm :=
  match s.trimAscii.toString.splitOn "@" with
  | [c, lab] => do
    let coef ← parseInt? c
    let ips ← if lab.trimAscii.toString.isEmpty then some [] else
      (lab.trimAscii.toString.splitOn ",").mapM fun x =>
        match x.splitOn "." with
        | [i, p] => do some (← parseNat? i, ← parseNat? p)
        | _ => none
    some (ips, coef)
  | _ => none

/-- op: `term&term` (empty string = the zero operator) -/
def parseOp (s : String) : Option (List PTerm) :=
  if s.trimAscii.toString.isEmpty then some [] else (s.trimAscii.toString.splitOn "&").mapM parseTerm

def parseOps (s : String) : Option (List (List PTerm)) :=
  if s.trimAscii.toString.isEmpty then some [] else (s.splitOn ";").mapM parseOp

def two (f : BArr → BArr → String) (args : String) : String :=
  match args.splitOn " " with
  | [a, b] => match parseArr a, parseArr b with
    | some x, some y => f x y
    | _, _ => "bad-request"
  | _ => "bad-request"

def gf2 (args : String) : String :=
  match args.trimAscii.toString.splitOn " | " with
  | ["dot", r] => two (fun a b => showR showBool (a.dot b)) r
  | ["add", r] => two (fun a b => showR showArr (a.add b)) r
  | ["mul", r] => two (fun a b => showR showArr (a.mul b)) r
  | ["pack", r] => showArr (BArr.ofBools (((r.trimAscii.toString.toList).filter (· != '-')).map (· == '1')))
  | ["mk", r] => match parseRows r with
    | some m => showR showRows (BMat.mk? m)
    | none => "bad-request"
  | ["transpose", r] => match parseRows r with
    | some m => "ok " ++ showRows (transpose m)
    | none => "bad-request"
  | ["inverse", r] => match parseRows r with
    | some m => showR showRows (inverse m)
    | none => "bad-request"
  | ["matvec", r, v] => match parseRows r, parseArr v with
    | some m, some x => showR showArr (matVec m x)
    | _, _ => "bad-request"
  | ["matmul", a, b] => match parseRows a, parseRows b with
    | some x, some y => showR showRows (matMul x y)
    | _, _ => "bad-request"
  | ["hstack", a, b] => match parseRows a, parseRows b with
    | some x, some y => showR showRows (hstack x y)
    | _, _ => "bad-request"
  | _ => "bad-request"

def query (m : Mapping) (q : String) : String :=
  match q.trimAscii.toString.splitOn ":" with
  | ["s", occ] => showR toString (stateMapper m (parseNatList occ))
  | ["i", bits] => match parseNat? bits with
    | some b => showR showNats (invStateMapper m b)
    | none => "bad"
  | ["f", qc, ne, sz, bits] => match parseNat? qc, parseNat? ne, parseOptInt sz, parseNat? bits with
    | some qc, some ne, some sz, some b => showR showBool (invFilter m qc ne sz b)
    | _, _, _, _ => "bad"
  | _ => "bad"

/-- `c13map <kind> <n> <nf|-> <sz2|-> | <ops> | q;q;…` -/
def c13map (args : String) : String :=
  match args.splitOn "|" with
  | [hd, ops, qs] =>
    match hd.trimAscii.toString.splitOn " " with
    | [k, n, nf, sz] =>
      match parseKind k, parseNat? n, parseOptNat nf, parseOptInt sz, parseOps ops with
      | some k, some n, some nf, some sz, some ops =>
        match mkMapping k n nf sz ops with
        | .error e => "err " ++ e.name
        | .ok m =>
          let hdr := s!"ok nq={m.nQubits} inv={showRows m.invMat} signs={joinWith "" (m.signs.map showBool)} trans={showRows m.transMat}"
          let rs := if qs.trimAscii.toString.isEmpty then [] else (qs.splitOn ";").map (query m)
          hdr ++ " | " ++ joinWith ";" rs
      | _, _, _, _, _ => "bad-request"
    | _ => "bad-request"
  | _ => "bad-request"

/-- `c13jw <ne> <sz2|-> <bits,bits,…>` -/
def c13jw (args : String) : String :=
  match args.trimAscii.toString.splitOn " " with
  | [ne, sz, bs] => match parseNat? ne, parseOptInt sz with
    | some ne, some sz => joinWith "" ((parseNatList bs).map fun b => showBool (jwFilter ne sz b))
    | _, _ => "bad-request"
  | _ => "bad-request"

/-- `c13sz <occ>` ; `c13par <nf> <sz2>` -/
def c13sz (args : String) : String := toString (occSz2 (parseNatList args))

def c13par (args : String) : String :=
  match args.trimAscii.toString.splitOn " " with
  | [nf, sz] => match parseNat? nf, parseInt? sz with
    | some nf, some sz => let p := scbkParityFactor nf sz; showBool p.1 ++ showBool p.2
    | _, _ => "bad-request"
  | _ => "bad-request"

/-- `c13fct <indices>` : FermionCreationTerm sign and sorted indices -/
def c13fct (args : String) : String :=
  let r := creationTerm (parseNatList args)
  showBool r.1 ++ " " ++ showNats r.2

def dispatch (line : String) : String :=
  let l := line.trimAscii.toString
  match l.splitOn " " with
  | cmd :: rest =>
    let args := " ".intercalate rest
    match cmd with
    | "gf2" => gf2 args
    | "c13map" => c13map args
    | "c13jw" => c13jw args
    | "c13sz" => c13sz args
    | "c13par" => c13par args
    | "c13fct" => c13fct args
    | _ => "bad-request"
  | [] => "bad-request"

end QV.Driver.C13
