import QuriVerif.Model.C18
/-
  C18 line protocol (front end of Model/C18.lean; not part of any theorem).

    c18remap  <k:v,...> | <qubit_count> <cbit_count> | <name/targets/controls/classical/payload;...>
    c18unmap  <k:v,...> | <key:count,...>
    c18bits   <k:v,...> | <x,...>
    c18fwd    <k:v,...> | <x,...>
    c18qiskit <k:v,...> | <bitstring:count,...>
    c18braket <k:v,...> | <q,...>~<row row ...>#<q,...>~<row row ...>     (one group per batch; row = bits in measured-qubit order)
-/
namespace QV.Driver.C18
open QV.C18

def trim (s : String) : String := s.trimAscii.toString

def splitNE (s : String) (sep : String) : List String :=
  let t := trim s
  if t.isEmpty then [] else (t.splitOn sep).map trim

def parseNats (s : String) : Option (List Nat) := (splitNE s ",").mapM (·.toNat?)

def parsePairs (s : String) : Option (List (Nat × Nat)) :=
  (splitNE s ",").mapM fun kv =>
    match kv.splitOn ":" with
    | [k, v] => do let k ← (trim k).toNat?; let v ← (trim v).toNat?; pure (k, v)
    | _ => none

def parseCounts (s : String) : Option Counts :=
  (splitNE s ",").mapM fun kv =>
    match kv.splitOn ":" with
    | [k, v] => do let k ← (trim k).toNat?; let v ← (trim v).toInt?; pure (k, v)
    | _ => none

def parseBits (s : String) : Option (List Bool) :=
  (trim s).toList.mapM fun c => if c == '0' then some false else if c == '1' then some true else none

def parseGate (s : String) : Option Gate :=
  match s.splitOn "/" with
  | [n, t, c, cl, pl] => do
    let t ← parseNats t; let c ← parseNats c; let cl ← parseNats cl
    pure { name := trim n, targets := t, controls := c, classical := cl, payload := trim pl }
  | _ => none

def parseGates (s : String) : Option (List Gate) := (splitNE s ";").mapM parseGate

def join (sep : String) (xs : List String) : String := sep.intercalate xs
def showNats (xs : List Nat) : String := join "," (xs.map toString)
def showPairs (xs : List (Nat × Nat)) : String := join "," (xs.map fun p => s!"{p.1}:{p.2}")
def showCounts (xs : Counts) : String := join "," (xs.map fun p => s!"{p.1}:{p.2}")
def showGate (g : Gate) : String :=
  s!"{g.name}/{showNats g.targets}/{showNats g.controls}/{showNats g.classical}/{g.payload}"

def showErr : Err → String
  | .dupValues => "dupValues" | .emptyMapping => "emptyMapping" | .missing q => s!"missing:{q}"
  | .qubitRange => "qubitRange" | .cbitRange => "cbitRange"

def remap (args : String) : String :=
  match args.splitOn "|" with
  | [ms, hd, gs] =>
    match parsePairs ms, parseNats (join "," (splitNE hd " ")), parseGates gs with
    | some m, some [qc, cc], some gates =>
      match mkTranspiler m with
      | .error e => s!"err init ValueError {showErr e}"
      | .ok mx =>
        match callTranspiler m mx ⟨qc, cc, gates⟩ with
        | .error e => s!"err call ValueError {showErr e}"
        | .ok c' => s!"ok {c'.qubitCount} {c'.cbitCount} | {join ";" (c'.gates.map showGate)}"
    | _, _, _ => "bad-request"
  | _ => "bad-request"

def unmap (args : String) : String :=
  match args.splitOn "|" with
  | [ms, cs] =>
    match parsePairs ms, parseCounts cs with
    | some m, some c => s!"rm={showPairs (createReverseMap m)} | counts={showCounts (unmapCounts m c)}"
    | _, _ => "bad-request"
  | _ => "bad-request"

def bits (f : QMap → Nat → Nat) (args : String) : String :=
  match args.splitOn "|" with
  | [ms, xs] =>
    match parsePairs ms, parseNats xs with
    | some m, some l => showNats (l.map (f m))
    | _, _ => "bad-request"
  | _ => "bad-request"

/-- qiskit `get_job_mapper_and_circuit_transpiler`: `if qubit_mapping:` — an empty mapping means no job mapper -/
def qiskit (args : String) : String :=
  match args.splitOn "|" with
  | [ms, cs] =>
    let entries := (splitNE cs ",").mapM fun kv =>
      match kv.splitOn ":" with
      | [k, v] => do let b ← parseBits k; let v ← (trim v).toInt?; pure (b, v)
      | _ => none
    match parsePairs ms, entries with
    | some m, some es =>
      -- measurements[int(result, 2)] = qiskit_counts[result]
      let conv : Counts := es.foldl (fun d e => dictSet d (binStrValue e.1) e.2) []
      showCounts (if m.isEmpty then conv else unmapCounts m conv)
    | _, _ => "bad-request"
  | _ => "bad-request"

def braket (args : String) : String :=
  match args.splitOn "|" with
  | [ms, bs] =>
    let batches := (splitNE bs "#").mapM fun b =>
      match b.splitOn "~" with
      | [qs, rows] => do
        let mq ← parseNats qs
        let rs ← (splitNE rows " ").mapM parseBits
        pure (mq, rs)
      | _ => none
    match parsePairs ms, batches with
    | some m, some bl =>
      let per := bl.map fun b => unmapCounts m (counter (b.2.map (braketKeyImpl b.1)))
      showCounts (match per with | [c] => c | _ => mergeCounts per)
    | _, _ => "bad-request"
  | _ => "bad-request"

def dispatch (line : String) : String :=
  let l := trim line
  match l.splitOn " " with
  | cmd :: rest =>
    let args := " ".intercalate rest
    match cmd with
    | "c18remap" => remap args
    | "c18unmap" => unmap args
    | "c18bits" => bits unmapBits args
    | "c18fwd" => bits fwdBits args
    | "c18qiskit" => qiskit args
    | "c18braket" => braket args
    | _ => "bad-request"
  | [] => "bad-request"

end QV.Driver.C18
