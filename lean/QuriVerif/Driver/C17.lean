import QuriVerif.Model.C17
import QuriVerif.Generated.C17Data
/-
  Line protocol of the C17 model (requests are space separated; `|` separates list arguments):
    round53 <rat>
    scalar <exact|fp53> <flags:ecr> <spec|gen> <FactoryName> <x0> <x1> …    flags = usesGeneralEig, eigReturnsComplex, krausFieldReal (0/1 each)
    flipw <FactoryName> <rat>
    pauli <arith> <tol> <nIdx> | <row;row;…  ids by ,> | <x x …>
    gdepol <arith> <x> <n> <nIdx>
    prob <arith> <tol> <nIdx> | <matrix;matrix;…  rows by , entries by :> | <x x …>
    kraus <nIdx> | <matrix;matrix;…>
    choi <a> <e> <s>
  scalars: `nan`, `inf`, `-inf` or `<int>/<nat>` (or `<int>`).
-/
namespace QV.Driver.C17
open QV.C17

def trim (s : String) : String := s.trimAscii.toString

def parseRat? (s : String) : Option Rat :=
  match (trim s).splitOn "/" with
  | [n] => (trim n).toInt?.map fun i => (i : Rat)
  | [n, d] =>
    match (trim n).toInt?, (trim d).toNat? with
    | some i, some k => if k = 0 then none else some ((i : Rat) / (k : Rat))
    | _, _ => none
  | _ => none

def parseXR? (s : String) : Option XR :=
  match trim s with
  | "nan" => some .nan
  | "inf" => some .pinf
  | "-inf" => some .ninf
  | t => (parseRat? t).map .fin

def showRat (q : Rat) : String := s!"{q.num}/{q.den}"

def showXR : XR → String
  | .fin q => showRat q
  | .pinf => "inf"
  | .ninf => "-inf"
  | .nan => "nan"

def showEV : EV → String
  | .val neg sq => (if neg then "-" else "+") ++ showRat sq
  | .nan => "nan"
  | .inf neg => if neg then "-inf" else "+inf"

def joinWith (sep : String) (xs : List String) : String := sep.intercalate xs

def words (s : String) : List String := ((trim s).splitOn " ").filter (· ≠ "")

def parseArith? (s : String) : Option Arith :=
  match trim s with
  | "exact" => some exact
  | "fp53" => some fp53
  | _ => none

def showErr : Err → String
  | .valueError => "err ValueError"
  | .typeError => "err TypeError"

def showKraus (ks : List (List (List EV))) : String :=
  joinWith ";" (ks.map fun m => joinWith "," (m.map fun r => joinWith ":" (r.map showEV)))

def showMats (ms : List (List (List Rat))) : String :=
  joinWith ";" (ms.map fun m => joinWith "," (m.map fun r => joinWith ":" (r.map showRat)))

def showInstr (i : Instr) : String :=
  s!"ok {i.name} n={i.qubitCount} params={joinWith " " (i.params.map showXR)} | paulis={joinWith ";" (i.pauliList.map fun r => joinWith "," (r.map toString))} | probs={joinWith " " (i.probList.map showXR)} | kraus={showKraus i.kraus} | mats={showMats i.gateMatrices} | cq={completeQ i.kraus}"

def showRes : Except Err Instr → String
  | .ok i => showInstr i
  | .error e => showErr e

def genGuards : Kind → List Guard
  | .bitFlip => QV.Gen.C17.guards_bitFlip | .phaseFlip => QV.Gen.C17.guards_phaseFlip
  | .bitPhaseFlip => QV.Gen.C17.guards_bitPhaseFlip | .depolarizing => QV.Gen.C17.guards_depolarizing
  | .reset => QV.Gen.C17.guards_reset | .phaseDamping => QV.Gen.C17.guards_phaseDamping
  | .amplitudeDamping => QV.Gen.C17.guards_amplitudeDamping
  | .phaseAmplitudeDamping => QV.Gen.C17.guards_phaseAmplitudeDamping
  | .thermalRelaxation => QV.Gen.C17.guards_thermalRelaxation

def genKraus : Kind → List KMat
  | .bitFlip => QV.Gen.C17.kraus_bitFlip | .phaseFlip => QV.Gen.C17.kraus_phaseFlip
  | .bitPhaseFlip => QV.Gen.C17.kraus_bitPhaseFlip | .depolarizing => QV.Gen.C17.kraus_depolarizing
  | .reset => QV.Gen.C17.kraus_reset | .phaseDamping => QV.Gen.C17.kraus_phaseDamping
  | .amplitudeDamping => QV.Gen.C17.kraus_amplitudeDamping
  | .phaseAmplitudeDamping => QV.Gen.C17.kraus_phaseAmplitudeDamping
  | .thermalRelaxation => QV.Gen.C17.kraus_thermalRelaxation

def parseMat? (s : String) : Option (List (List Rat)) :=
  ((trim s).splitOn ",").mapM fun r => ((trim r).splitOn ":").mapM parseRat?

def parseMats? (s : String) : Option (List (List (List Rat))) :=
  if (trim s).isEmpty then some [] else ((trim s).splitOn ";").mapM parseMat?

def parseXRs? (s : String) : Option (List XR) := (words s).mapM parseXR?

def parsePaulis? (s : String) : Option (List (List Nat)) :=
  if (trim s).isEmpty then some [] else
  ((trim s).splitOn ";").mapM fun r =>
    if (trim r).isEmpty then some [] else ((trim r).splitOn ",").mapM fun x => (trim x).toNat?

def flag (s : String) (i : Nat) : Bool := (s.toList.getD i '0') == '1'

def scalarCmd (ws : List String) : String :=
  match ws with
  | ar :: fl :: src :: name :: xs =>
    match parseArith? ar, Kind.ofName? name, xs.mapM parseXR? with
    | some A, some k, some ps =>
      let tc : ThermalCfg := { usesGeneralEig := flag fl 0, eigReturnsComplex := flag fl 1, krausFieldReal := flag fl 2 }
      if src == "spec" then showRes (scalarFactory A specProbCheck codeGuards specKraus tc k ps)
      else showRes (scalarFactory A QV.Gen.C17.probCheck genGuards genKraus tc k ps)
    | _, _, _ => "bad-request"
  | _ => "bad-request"

def dispatch (line : String) : String :=
  match (trim line).splitOn "|" with
  | [single] =>
    match words single with
    | ["round53", q] => match parseRat? q with | some r => showRat (round53 r) | none => "bad-request"
    | "scalar" :: rest => scalarCmd rest
    | ["flipw", name, q] =>
      match Kind.ofName? name, parseRat? q with
      | some k, some r => joinWith " " ((flipWeights k r).map showRat)
      | _, _ => "bad-request"
    | ["gdepol", ar, x, n, nIdx] =>
      match parseArith? ar, parseXR? x, n.toNat?, nIdx.toNat? with
      | some A, some x, some n, some i => showRes (generalDepolarizing A QV.Gen.C17.probCheck x n i)
      | _, _, _, _ => "bad-request"
    | ["choi", a, e, s] =>
      match parseRat? a, parseRat? e, parseRat? s with
      | some a, some e, some s => joinWith "," ((thermalChoi a e s).map fun r => joinWith ":" (r.map showRat))
      | _, _, _ => "bad-request"
    | _ => "bad-request"
  | [head, ms] =>
    match words head with
    | ["kraus", nIdx] =>
      match nIdx.toNat?, parseMats? ms with
      | some i, some m => showRes (krausNoise m i)
      | _, _ => "bad-request"
    | _ => "bad-request"
  | [head, a, b] =>
    match words head with
    | ["pauli", ar, tol, nIdx] =>
      match parseArith? ar, parseXR? tol, nIdx.toNat?, parsePaulis? a, parseXRs? b with
      | some A, some t, some i, some ps, some xs => showRes (pauliNoise A QV.Gen.C17.probCheck "PauliNoise" ps xs i t)
      | _, _, _, _, _ => "bad-request"
    | ["prob", ar, tol, nIdx] =>
      match parseArith? ar, parseXR? tol, nIdx.toNat?, parseMats? a, parseXRs? b with
      | some A, some t, some i, some ms, some xs => showRes (probabilisticNoise A QV.Gen.C17.probCheck ms xs i t)
      | _, _, _, _, _ => "bad-request"
    | _ => "bad-request"
  | _ => "bad-request"

end QV.Driver.C17
