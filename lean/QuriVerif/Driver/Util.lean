import QuriVerif.Found.Gate
/- parsing / printing helpers for the line protocol (not part of any theorem) -/
namespace QV.Driver
open QV

def splitOn1 (s : String) (sep : String) : List String := s.splitOn sep

def parseInt? (s : String) : Option Int := s.trimAscii.toString.toInt?
def parseNat? (s : String) : Option Nat := s.trimAscii.toString.toNat?

def parseIntList (s : String) (sep : String := ",") : List Int :=
  if s.trimAscii.toString.isEmpty then [] else (s.splitOn sep).filterMap parseInt?

def parseNatList (s : String) (sep : String := ",") : List Nat :=
  if s.trimAscii.toString.isEmpty then [] else (s.splitOn sep).filterMap parseNat?

def parseKinds (s : String) : List Kind :=
  if s.trimAscii.toString.isEmpty then [] else (s.splitOn ",").filterMap fun x => Kind.ofName? x.trimAscii.toString

def parseStrs (s : String) : List String :=
  if s.trimAscii.toString.isEmpty then [] else (s.splitOn ",").map (·.trimAscii.toString)

def joinWith (sep : String) (xs : List String) : String := sep.intercalate xs

def showInts (xs : List Int) : String := joinWith "," (xs.map toString)
def showNats (xs : List Nat) : String := joinWith "," (xs.map toString)

def polyToStr (p : Poly) : String :=
  if p.isEmpty then "0" else
  joinWith "+" (p.map fun t => s!"{t.2}*{t.1.eu}*{joinWith ":" (t.1.ex.map toString)}")

def matToStr (m : Mat) : String :=
  joinWith ";" (m.map fun row => joinWith " " (row.map polyToStr))

end QV.Driver
