import QuriVerif.Driver.Util
import QuriVerif.Model.C06
import QuriVerif.Generated.C06Tables
namespace QV.Driver
open QV QV.C06

def parseLabel (s : String) : Label :=
  if s.trimAscii.toString.isEmpty then [] else
  (s.trimAscii.toString.splitOn ",").filterMap fun t =>
    match t.splitOn ":" with
    | [i, p] => match parseNat? i, parseNat? p with
      | some a, some b => some (a, b)
      | _, _ => none
    | _ => none

def showLabel (l : Label) : String := joinWith "," (l.map fun e => s!"{e.1}:{e.2}")

/-- `c06conj <Kind> <controls> <targets> | <label>`  (lists comma separated, `-` = empty) -/
def c06conj (args : String) : String :=
  match args.splitOn "|" with
  | [g, lab] =>
    match g.trimAscii.toString.splitOn " " with
    | [k, c, t] =>
      match Kind.ofName? k with
      | some kind =>
        let cl := if c == "-" then [] else parseNatList c
        let tl := if t == "-" then [] else parseNatList t
        match cliffordConj QV.Gen.C06.tables kind cl tl (parseLabel lab) with
        | .ok l ph => s!"ok {showLabel (canon l)} | {ph}"
        | .valueError => "ValueError"
        | .notImplemented => "NotImplementedError"
        | .keyError => "KeyError"
      | none => "ValueError"   -- unknown kinds are not Clifford names
    | _ => "bad-request"
  | _ => "bad-request"

end QV.Driver
