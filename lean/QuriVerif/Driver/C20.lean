import QuriVerif.Model.C20
import QuriVerif.Model.C20Cache
import QuriVerif.Generated.C20Shapes
/- line-protocol front end of the C20 models (not part of any theorem) -/
namespace QV.Driver.C20
open QV.C20

def tr (s : String) : String := s.trimAscii.toString
def nat? (s : String) : Option Nat := (tr s).toNat?
def int? (s : String) : Option Int := (tr s).toInt?
def optNat? (s : String) : Option (Option Nat) := if tr s == "-" then some none else (nat? s).map some
def listOf (f : String → Option α) (sep : String) (s : String) : Option (List α) :=
  if (tr s).isEmpty then some [] else ((tr s).splitOn sep).mapM f

/-- gate: `k.q,q.a.p` (p = `-` or a parameter id) -/
def gate? (s : String) : Option G :=
  match (tr s).splitOn "." with
  | [k, qs, a, p] => do some ⟨← nat? k, ← listOf nat? "," qs, ← int? a, ← optNat? p⟩
  | _ => none

/-- source: `h<j>` or `L<gate>/<gate>…` -/
def src? (s : String) : Option Src :=
  let t := tr s
  if t.startsWith "h" then (nat? (t.drop 1).toString).map .h
  else if t.startsWith "L" then (listOf gate? "/" (t.drop 1).toString).map .lit
  else none

def lit? (s : String) : Option (List G) :=
  match src? s with
  | some (.lit gs) => some gs
  | _ => none

/-- term: `C*c` or `hp.i*c` -/
def term? (s : String) : Option (PRef × Int) :=
  match (tr s).splitOn "*" with
  | [r, c] => do
    let c ← int? c
    if tr r == "C" then some (none, c) else
      match (tr r).splitOn "." with
      | [hp, i] => do some (some (← nat? hp, ← nat? i), c)
      | _ => none
  | _ => none

def op? (s : String) : Option Op :=
  match (tr s).splitOn ":" with
  | ["newC", n] => (nat? n).map .newC
  | ["newP", n] => (nat? n).map .newP
  | ["newL", n] => (nat? n).map .newL
  | ["addGate", h, g, i] => do some (.addGate (← nat? h) (← gate? g) (← optNat? i))
  | ["addPar", h, k, qs] => do some (.addPar (← nat? h) (← nat? k) (← listOf nat? "," qs))
  | ["addParL", h, k, qs, b, ts] => do
    some (.addParL (← nat? h) (← nat? k) (← listOf nat? "," qs) (tr b == "1") (← listOf term? "," ts))
  | ["addParams", h, c] => do some (.addParams (← nat? h) (← nat? c))
  | ["extend", h, sr] => do some (.extend (← nat? h) (← src? sr))
  | ["freeze", h] => (nat? h).map .freeze
  | ["mutCopy", h] => (nat? h).map .mutCopy
  | ["immCtor", h] => (nat? h).map .immCtor
  | ["primitive", h] => (nat? h).map .primitive
  | ["combine", h, sr] => do some (.combine (← nat? h) (← src? sr))
  | ["bind", h, vs] => do some (.bind (← nat? h) (← listOf int? "," vs))
  | ["getUnbound", h] => (nat? h).map .getUnbound
  | ["mkState", h] => (nat? h).map .mkState
  | ["stCircuit", h] => (nat? h).map .stCircuit
  | ["stApply", h, gs] => do some (.stApply (← nat? h) (← lit? gs))
  | ["stBind", h, vs] => do some (.stBind (← nat? h) (← listOf int? "," vs))
  | ["stPrim", h] => (nat? h).map .stPrim
  | ["obs", h] => (nat? h).map .obs
  | ["depth", h] => (nat? h).map .depth
  | ["eq", h, j] => do some (.eq (← nat? h) (← nat? j))
  | _ => none

def jl (xs : List String) : String := "[" ++ ",".intercalate xs ++ "]"
def jOpt : Option Nat → String
  | none => "null"
  | some n => toString n
def jG (g : G) : String := jl [toString g.k, jl (g.qs.map toString), toString g.a, jOpt g.p]
def jFn : LinFn → String
  | .param p => jl ["\"p\"", toString p]
  | .lin ts => jl ["\"l\"", jl (ts.map fun t => jl [jOpt t.1, toString t.2])]
def clsName : Cls → String
  | .qc => "qc" | .iqc => "iqc" | .bqc => "bqc" | .pqc => "pqc" | .ipqc => "ipqc"
def jB (b : Bool) : String := if b then "true" else "false"
def jR (v : RVal) : String :=
  "{\"k\":\"R\",\"cls\":\"" ++ clsName v.cls ++ "\",\"n\":" ++ toString v.n ++ ",\"gs\":" ++ jl (v.gs.map jG) ++
  ",\"pm\":" ++ jl (v.pm.map fun e => jl [toString e.1, toString e.2]) ++ ",\"ub\":" ++ jl (v.ub.map jG) ++ "}"
def jCV : CV → String
  | .r v => jR v
  | .l v => "{\"k\":\"L\",\"mu\":" ++ jB v.mu ++ ",\"ins\":" ++ jl (v.mp.ins.map toString) ++ ",\"outs\":" ++
      jl (v.mp.outs.map toString) ++ ",\"fn\":" ++ jl (v.mp.fn.map fun e => jl [toString e.1, jFn e.2]) ++
      ",\"pc\":" ++ jR v.pc ++ "}"
def jVal : Val → String
  | .c v => "{\"t\":\"c\",\"v\":" ++ jCV v ++ "}"
  | .s v => "{\"t\":\"s\",\"v\":" ++ jCV v ++ "}"
def errName : Err → String
  | .attr => "attr" | .value => "value" | .index => "index" | .type => "type" | .key => "key"
  | .runtime => "runtime" | .panic => "panic" | .badop => "badop"
def jOut : Out → String
  | .ok => "\"ok\""
  | .err e => "\"err:" ++ errName e ++ "\""
  | .val v => jVal v
  | .num n => toString n
  | .bool b => jB b

def cfgOf (name : String) : Option Cfg :=
  match tr name with
  | "gen" => some QV.Gen.C20.cfg
  | "good" => some Cfg.good
  | _ => none

/-- step-by-step run that also records the per-step `safe` flags -/
def runFlags (cfg : Cfg) : St → List Op → List Out × List Bool
  | _, [] => ([], [])
  | s, op :: ops =>
    let r := step cfg s op
    let r' := runFlags cfg r.st ops
    (r.out :: r'.1, r.safe :: r'.2)

/-- `c20run <cfg> | op ; op ; …`  →  JSON {"impl":[…],"safe":[…],"spec":[…],"refines":b} -/
def c20run (args : String) : String :=
  match args.splitOn "|" with
  | [c, h] =>
    match cfgOf c, listOf op? ";" h with
    | some cfg, some ops =>
      let r := runFlags cfg St.init ops
      let t := srun Sp.init ops
      "{\"impl\":" ++ jl (r.1.map jOut) ++ ",\"safe\":" ++ jl (r.2.map jB) ++ ",\"spec\":" ++ jl (t.2.map jOut) ++
        ",\"refines\":" ++ jB (refinesB cfg ops) ++ "}"
    | _, _ => "bad-request"
  | _ => "bad-request"

/-! cache model front end: `c20cache op ; op ; …` with ops
    `new` | `set:h:label:coef` | `del:h:label` | `copy:h` | `get:h:n` -/
open QV.C20.Cache in
def cop? (s : String) : Option COp :=
  match (tr s).splitOn ":" with
  | ["new"] => some .new
  | ["set", h, l, c] => do some (.set (← nat? h) (← nat? l) (← int? c))
  | ["del", h, l] => do some (.del (← nat? h) (← nat? l))
  | ["copy", h] => (nat? h).map .copy
  | ["get", h, n] => do some (.get (← nat? h) (← nat? n))
  | _ => none

open QV.C20.Cache in
def jContent (c : Content) : String := jl (c.map fun e => jl [toString e.1, toString e.2])

open QV.C20.Cache in
/-- response: for every `get` the content the returned result was computed on and whether it was a hit -/
def c20cache (args : String) : String :=
  match listOf cop? ";" args with
  | some ops =>
    let r := crun (fun c _ => c) CSt.init ops
    jl (r.2.map fun o => match o with
      | .none => "null"
      | .res c hit => jl [jContent c, jB hit])
  | none => "bad-request"

def dispatch (line : String) : String :=
  let l := tr line
  match l.splitOn " " with
  | cmd :: rest =>
    let args := " ".intercalate rest
    match cmd with
    | "c20run" => c20run args
    | "c20cache" => c20cache args
    | _ => "bad-request"
  | [] => "bad-request"

end QV.Driver.C20
