import QuriVerif.Driver.Util
import QuriVerif.Model.C09
/- line-protocol front end of the C09 model (not part of any theorem)

   mapping   := ins # outs # entries          (fields separated by '#')
   ins, outs := comma separated naturals ('-' = empty)
   entries   := ';' separated  raw=P<i>  |  raw=F<key>:<rat>,<key>:<rat>…   (key = c | natural; 'F' alone = empty dict)
   rat       := n/d
   requests  :  c09derivmaps <mapping>
                c09sp <order 1|2> | <mapping>
                c09shifted <order 1|2> | <mapping> | <vals>
                c09grad <order 1|2> | <mapping> | <vals>        (mock estimator (h² + 5h) mod 1009, h = Σ_i (k_i+3)·7^i)
                c09num <vals> | <delta>                          (mock estimator Σ_i (i+1)·v_i² + v_0·v_last)
-/
namespace QV.Driver.C09
open QV QV.Driver QV.C09

def parseRat? (s : String) : Option Rat :=
  match s.trimAscii.toString.splitOn "/" with
  | [n] => (parseInt? n).map fun i => (i : Rat)
  | [n, d] => do
    let i ← parseInt? n
    let k ← parseNat? d
    if k = 0 then none else some (mkRat i k)
  | _ => none

def showRat (r : Rat) : String := s!"{r.num}/{r.den}"

def parseList {α} (f : String → Option α) (sep : String) (s : String) : Option (List α) :=
  let t := s.trimAscii.toString
  if t.isEmpty || t == "-" then some [] else (t.splitOn sep).mapM f

def parseKey (s : String) : Option Key :=
  let t := s.trimAscii.toString
  if t == "c" then some .const else (parseNat? t).map .p

def parseKC (s : String) : Option (Key × Rat) :=
  match s.trimAscii.toString.splitOn ":" with
  | [k, c] => do some (← parseKey k, ← parseRat? c)
  | _ => none

def parseEntry (s : String) : Option (Nat × MapVal) :=
  match s.trimAscii.toString.splitOn "=" with
  | [r, v] => do
    let raw ← parseNat? r
    let v := v.trimAscii.toString
    if v.startsWith "P" then
      some (raw, .param (← parseNat? (v.drop 1).toString))
    else if v.startsWith "F" then
      some (raw, .fn (← parseList parseKC "," (v.drop 1).toString))
    else none
  | _ => none

def parseMapping (s : String) : Option Mapping :=
  match s.splitOn "#" with
  | [i, o, e] => do
    some ⟨← parseList parseNat? "," i, ← parseList parseNat? "," o, ← parseList parseEntry ";" e⟩
  | _ => none

def showShifts (s : Shifts) : String := joinWith "," (s.map fun e => s!"{e.1}:{e.2}")
def showTerm (t : QV.C09.Term) : String := showShifts t.1 ++ "@" ++ showRat t.2
def showTerms (ts : List QV.C09.Term) : String := joinWith ";" (ts.map showTerm)

def showVecTerm (t : List QV.C09.Angle × Rat) : String :=
  joinWith "," (t.1.map fun a => s!"{showRat a.1}:{a.2}") ++ "@" ++ showRat t.2
def showVecTerms (ts : List (List QV.C09.Angle × Rat)) : String := joinWith ";" (ts.map showVecTerm)

def showR {α} (f : α → String) : R α → String
  | .ok a => "ok " ++ f a
  | .error e => "err " ++ e.name

def fields (args : String) : List String := (args.splitOn "|").map (·.trimAscii.toString)

def derivmaps (args : String) : String :=
  match parseMapping args with
  | some m => "ok " ++ joinWith " | " ((getDerivMaps m).map fun d => joinWith "," (d.map fun e => s!"{e.1}:{showRat e.2}"))
  | none => "bad-request"

def sp (args : String) : String :=
  match fields args with
  | [o, ms] =>
    match parseMapping ms with
    | some m =>
      if o == "1" then "ok " ++ joinWith " | " ((spDerivatives m noShift).map showTerms)
      else "ok " ++ joinWith " || " ((spDerivatives m noShift).map fun di =>
        joinWith " | " ((spDerivatives m di).map showTerms))
    | none => "bad-request"
  | _ => "bad-request"

def shifted (args : String) : String :=
  match fields args with
  | [o, ms, vs] =>
    match parseMapping ms, parseList parseRat? "," vs with
    | some m, some vals =>
      if o == "1" then showR (fun ts => joinWith " | " (ts.map showVecTerms)) (gradientTerms m vals)
      else showR (fun rows => joinWith " || " (rows.map fun row => joinWith " | " (row.map showVecTerms)))
        (hessianTerms m vals)
    | _, _ => "bad-request"
  | _ => "bad-request"

/-- the mock estimator shared with the harness: `(h² + 5h) mod 1009`, `h = Σ_i (k_i + 3)·7^i` -/
def mockEst (vec : List QV.C09.Angle) : Rat :=
  let h : Int := (vec.zipIdx.map fun e => ((e.1.2 + 3) * (7 : Int) ^ e.2 : Int)).foldl (· + ·) 0
  (((h * h + 5 * h) % 1009 : Int) : Rat)

def grad (args : String) : String :=
  match fields args with
  | [o, ms, vs] =>
    match parseMapping ms, parseList parseRat? "," vs with
    | some m, some vals =>
      if o == "1" then
        showR (fun g => joinWith "," (g.map showRat)) (psGradient (0 : Rat) (· + ·) (· * ·) mockEst m vals)
      else
        showR (fun H => joinWith ";" (H.map fun row => joinWith "," (row.map showRat)))
          (psHessian (0 : Rat) (· + ·) (· * ·) mockEst m vals)
    | _, _ => "bad-request"
  | _ => "bad-request"

/-- mock estimator of the numerical gradient: `Σ_i (i+1)·v_i² + v_0·v_last` -/
def mockNum (v : List Rat) : Rat :=
  (v.zipIdx.map fun e => ((e.2 : Nat) + 1 : Rat) * e.1 * e.1).foldl (· + ·) 0
    + (match v.head?, v.getLast? with | some a, some b => a * b | _, _ => 0)

def num (args : String) : String :=
  match fields args with
  | [vs, d] =>
    match parseList parseRat? "," vs, parseRat? d with
    | some vals, some delta =>
      showR (fun g => joinWith "," (g.map showRat)) (numGradient mockNum vals delta)
        ++ " # " ++ joinWith ";" ((numVectors vals delta).map fun v => joinWith "," (v.map showRat))
    | _, _ => "bad-request"
  | _ => "bad-request"

def dispatch (line : String) : String :=
  let l := line.trimAscii.toString
  match l.splitOn " " with
  | cmd :: rest =>
    let args := " ".intercalate rest
    match cmd with
    | "c09derivmaps" => derivmaps args
    | "c09sp" => sp args
    | "c09shifted" => shifted args
    | "c09grad" => grad args
    | "c09num" => num args
    | _ => "bad-request"
  | [] => "bad-request"

end QV.Driver.C09
