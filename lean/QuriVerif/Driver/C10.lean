import QuriVerif.Model.C10
import QuriVerif.Generated.C10Tables
/- line-protocol front end of the C10 model (not part of any theorem); K = ℚ -/
namespace QV.Driver.C10
open QV QV.C10

abbrev Q := Rat

def tr (s : String) : String := s.trimAscii.toString
def nat? (s : String) : Option Nat := (tr s).toNat?
def int? (s : String) : Option Int := (tr s).toInt?
def listOf {α : Type} (f : String → Option α) (sep : String) (s : String) : Option (List α) :=
  if (tr s).isEmpty then some [] else ((tr s).splitOn sep).mapM f

def rat? (s : String) : Option Q :=
  match (tr s).splitOn "/" with
  | [a] => (int? a).map fun n => (n : Q)
  | [a, b] => do
    let n ← int? a
    let d ← nat? b
    if d = 0 then none else some (mkRat n d)
  | _ => none

def aval? (s : String) : Option (AVal Q) :=
  let t := tr s
  if t.startsWith "v" then (rat? (t.drop 1).toString).map .val
  else if t.startsWith "h" then (int? (t.drop 1).toString).map .halfPi
  else none

/-- `Kind;controls;targets;params;paulis` -/
def gate? (s : String) : Option (FG Q) :=
  match (tr s).splitOn ";" with
  | [k, c, t, p, ids] => do
    some { kind := ← Kind.ofName? (tr k), controls := ← listOf nat? "," c, targets := ← listOf nat? "," t,
           params := ← listOf aval? "," p, paulis := ← listOf nat? "," ids }
  | _ => none

def gates? (s : String) : Option (List (FG Q)) := listOf gate? "&" s

def pk? (s : String) : Option PK :=
  match tr s with
  | "rx" => some .rx | "ry" => some .ry | "rz" => some .rz | "prot" => some .prot | _ => none

def src? (s : String) : Option (Src Q) :=
  let t := tr s
  if t.startsWith "h" then (nat? (t.drop 1).toString).map .h
  else if t.startsWith "L" then (gates? (t.drop 1).toString).map .lit
  else if t.startsWith "Q" then
    match ((t.drop 1).toString).splitOn "@" with
    | [n, gs] => do some (.qc (← nat? n) (← gates? gs))
    | _ => none
  else none

/-- parameter reference: `C` or `j.i` = `in_params[i]` of circuit `j` in the current store -/
def ref? (st : Store Q) (s : String) : Option PId :=
  if tr s == "C" then some CONST else
  match (tr s).splitOn "." with
  | [j, i] => do
    let c ← st.circs[← nat? j]?
    c.view.m.inP[← nat? i]?
  | _ => none

def term? (st : Store Q) (s : String) : Option (PId × Q) :=
  match (tr s).splitOn "*" with
  | [r, c] => do some (← ref? st r, ← rat? c)
  | _ => none

def ang? (st : Store Q) (s : String) : Option (Ang Q) :=
  let t := tr s
  if t == "-" then some (.fn [])
  else if t.startsWith "P" then (ref? st (t.drop 1).toString).map .par
  else if t.startsWith "F" then (listOf (term? st) "," (t.drop 1).toString).map .fn
  else none

def inner? (s : String) : Option Inner :=
  match tr s with
  | "id" => some .id | "reverse" => some .reverse | "mark" => some .mark | "idInsert" => some .idInsert
  | "rx2rzh" => some .rx2rzh | "ry2rzh" => some .ry2rzh | "pauliRot" => some .pauliRot | _ => none

def pt? (s : String) : Option PT0 :=
  let t := tr s
  if t == "rx" then some .rx else if t == "ry" then some .ry else if t == "pauli" then some .pauli
  else if t.startsWith "w." then (inner? (t.drop 2).toString).map .wrap
  else none

def op? (st : Store Q) (s : String) : Option (Op Q) :=
  match (tr s).splitOn ":" with
  | ["newL", n] => (nat? n).map .newL
  | ["newP", n] => (nat? n).map .newP
  | ["addParams", h, k] => do some (.addParams (← nat? h) (List.replicate (← nat? k) "p"))
  | ["addGate", h, g] => do some (.addGate (← nat? h) (← gate? g))
  | ["addPar", h, k, ts, ids, a] => do
    some (.addPar (← nat? h) (← pk? k) (← listOf nat? "," ts) (← listOf nat? "," ids) (← ang? st a))
  | ["extend", h, sr] => do some (.extend (← nat? h) (← src? sr))
  | ["plus", h, sr] => do some (.plus (← nat? h) (← src? sr))
  | ["rplus", sr, h] => do some (.rplus (← src? sr) (← nat? h))
  | ["tr", ts, h] => do some (.tr (← listOf pt? "," ts) (← nat? h))
  | _ => none

/-! JSON output -/
def jl (xs : List String) : String := "[" ++ ",".intercalate xs ++ "]"
def js (s : String) : String := "\"" ++ s ++ "\""
def jNats (xs : List Nat) : String := jl (xs.map toString)
def jRat (q : Q) : String := js (toString q.num ++ "/" ++ toString q.den)
def jAVal : AVal Q → String
  | .val v => js ("v" ++ toString v.num ++ "/" ++ toString v.den)
  | .halfPi q => js ("h" ++ toString q)
def jFG (g : FG Q) : String :=
  jl [js "f", js g.kind.name, jNats g.controls, jNats g.targets, jl (g.params.map jAVal), jNats g.paulis]
def pkName : PK → String
  | .rx => "rx" | .ry => "ry" | .rz => "rz" | .prot => "prot"
def jPG : PG Q → String
  | .fixed g => jFG g
  | .par k ts ids r => jl [js "p", js (pkName k), jNats ts, jNats ids, toString r]
def jAng : Ang Q → String
  | .par p => jl [js "p", toString p]
  | .fn ts => jl [js "f", jl (ts.map fun t => jl [toString t.1, jRat t.2])]
def jErr (e : Err) : String := jl [js "err", js e.name]
def jExcept {α : Type} (f : α → String) : Except Err α → String
  | .ok a => jl [js "ok", f a]
  | .error e => jErr e

def jObs (c : Circ Q) : String :=
  let v := c.view
  let kind := match c with | .lin _ => "L" | .plain _ _ => "P"
  jl [js kind, toString v.n, jNats v.m.inP, jNats v.m.outP,
      jl (v.m.map.map fun kv => jl [toString kv.1, jAng kv.2]), jl (v.gs.map jPG)]

def pair? (st : Store Q) (s : String) : Option (PId × Q) :=
  match (tr s).splitOn "=" with
  | [r, v] => do some (← ref? st r, ← rat? v)
  | _ => none

def query (st : Store Q) (s : String) : String :=
  let bad := js "bad-query"
  match (tr s).splitOn ":" with
  | ["obs", h] => match (nat? h).bind (st.circs[·]?) with
    | some c => jObs c
    | none => bad
  | ["bind", h, vs] => match (nat? h).bind (st.circs[·]?), listOf rat? "," vs with
    | some c, some vs => jExcept (fun gs => jl (gs.map jFG)) (c.bind vs)
    | _, _ => bad
  | ["bindDict", h, ps] => match (nat? h).bind (st.circs[·]?), listOf (pair? st) "," ps with
    | some c, some ps => jExcept (fun gs => jl (gs.map jFG)) (c.bindDict (Dict.setAll [] ps))
    | _, _ => bad
  | ["seqmap", h, vs] => match (nat? h).bind (st.circs[·]?), listOf rat? "," vs with
    | some c, some vs => jExcept (fun xs => jl (xs.map jRat)) (c.view.m.seqMapper vs)
    | _, _ => bad
  | ["trivial", h] => match (nat? h).bind (st.circs[·]?) with
    | some (.lin c) => jExcept (fun b => if b then "true" else "false") (c.m.isTrivial (· == 1))
    | some (.plain _ _) => jl [js "ok", "true"]
    | none => bad
  | ["count", h] => match (nat? h).bind (st.circs[·]?) with
    | some c => toString c.view.m.inP.length
    | none => bad
  | _ => bad

/-- positions, in the parameter list of circuit `h` after the operation, of the parameters the call returned
    (`add_parameters` returns the new parameters, plain `add_Parametric*_gate` returns the raw parameter) -/
def returned (st st' : Store Q) : Op Q → String
  | .addParams h names =>
    match st.circs[h]? with
    | some c => let k := c.view.m.inP.length; ":" ++ ",".intercalate ((List.range names.length).map fun i => toString (k + i))
    | none => ""
  | .addPar h _ _ _ _ =>
    match st.circs[h]?, st'.circs[h]? with
    | some (.plain _ gs), some (.plain _ _) => ":" ++ toString (raws gs).length
    | _, _ => ""
  | _ => ""

/-- ops are parsed one at a time against the current store (parameter references) -/
def runOps (tb : Tables) : Store Q → List String → Option (Store Q × List String)
  | st, [] => some (st, [])
  | st, o :: os => do
    let op ← op? st o
    let (st', e) := step tb st op
    let (st'', rs) ← runOps tb st' os
    some (st'', (match e with | none => js ("ok" ++ returned st st' op) | some e => js e.name) :: rs)

def splitTop (s : String) (sep : String) : List String :=
  if (tr s).isEmpty then [] else (s.splitOn sep).map tr

def dispatch (line : String) : String :=
  match (tr line).splitOn " || " with
  | [ops, qs] =>
    match runOps QV.Gen.C10.tables {} (splitTop ops " | ") with
    | some (st, rs) => jl [jl rs, jl ((splitTop qs " | ").map (query st))]
    | none => js "bad-request"
  | [ops] =>
    match runOps QV.Gen.C10.tables {} (splitTop ops " | ") with
    | some (_, rs) => jl [jl rs, "[]"]
    | none => js "bad-request"
  | _ => js "bad-request"

end QV.Driver.C10
