import QuriVerif.Model.C04
/-
  C04 line protocol (front end of Model/C04.lean; not part of any theorem).

  encodings
    label       q.p,q.p,...          ("-" = identity)
    coef        re/im                (fixed point, units of 1/16)
    term        label:re/im
    estimatable L<label>  |  O<term;term;...>      ("O" alone = empty operator)
    state       n.bits               computational basis state |bits> on n qubits (bits as a natural number)

    c04cache   n#E | n#E | ...                         one convert_operator history
    c04batch   numOps numStates
    c04session kind~E&E&..~st&st&.. @@ ...             kind = one|conc|core ; estimator calls sharing one cache
    c04general <S|Qk> <S|Qm> <N|E|Fk|Vk>
    c04param   <Uk | Lk:c,c,..+const;c,..+const;...> | p,p,.. ; p,p,.. ; ...
    c04compiled <pc> | p,.. ; p,.. ; ...
    c04stim    label n
    c04sparse  E <n|none>
    c04hist    g:label:n ; s:i:k ; ...
-/
namespace QV.Driver.C04
open QV.C04

def trim (s : String) : String := s.trimAscii.toString

def splitNE (s : String) (sep : String) : List String :=
  let t := trim s
  if t.isEmpty then [] else (t.splitOn sep).map trim

def join (sep : String) (xs : List String) : String := sep.intercalate xs

def parseLabel (s : String) : Option Label :=
  if trim s == "-" then some [] else
  (splitNE s ",").mapM fun qp =>
    match qp.splitOn "." with
    | [q, p] => do let q ← (trim q).toNat?; let p ← (trim p).toNat?; pure (q, p)
    | _ => none

def parseCoef (s : String) : Option Coef :=
  match s.splitOn "/" with
  | [a, b] => do let a ← (trim a).toInt?; let b ← (trim b).toInt?; pure ⟨a, b⟩
  | _ => none

def parseTerm (s : String) : Option Term :=
  match s.splitOn ":" with
  | [l, c] => do let l ← parseLabel l; let c ← parseCoef c; pure (l, c)
  | _ => none

def parseEst (s : String) : Option Estimatable :=
  let t := trim s
  if t.startsWith "L" then (parseLabel (t.drop 1).toString).map .label
  else if t.startsWith "O" then ((splitNE (t.drop 1).toString ";").mapM parseTerm).map .op
  else none

def showLabel (l : Label) : String :=
  if l.isEmpty then "-" else join "," (l.map fun x => s!"{x.1}.{x.2}")

def showCoef (c : Coef) : String := s!"{c.re}/{c.im}"
def showTerm (t : Term) : String := s!"{showLabel t.1}:{showCoef t.2}"
def showTerms (ts : List Term) : String := join ";" (ts.map showTerm)

def showInts (xs : List Int) : String := join "," (xs.map toString)
def showNats (xs : List Nat) : String := join "," (xs.map toString)

/-! ### cache history -/

def cacheCmd (args : String) : String :=
  let reqs := (splitNE args "|").mapM fun r =>
    match r.splitOn "#" with
    | [n, e] => do let n ← (trim n).toNat?; let e ← parseEst e; pure (e, n)
    | _ => none
  match reqs with
  | none => "bad-request"
  | some reqs =>
    let rec go (c : Cache) : List (Estimatable × Nat) → List String
      | [] => []
      | (e, n) :: rest =>
        match convert c e n with
        | .ok o =>
          s!"{if o.hit then "hit" else "miss"}~{o.cache.length}~{o.op.nq}~{showTerms o.op.terms}~{showTerms (keyOf e n).terms}"
            :: go o.cache rest
        | .error _ => s!"err:IndexError~{c.length}" :: go c rest
    join "|" (go [] reqs)

/-! ### batch shapes -/

def showBatchErr : BatchErr → String
  | .noOperator => "noOperator" | .noState => "noState" | .mismatch => "mismatch"

def showPairs (ps : List (Nat × Nat)) : String := join "," (ps.map fun p => s!"{p.1}.{p.2}")

def batchCmd (args : String) : String :=
  match splitNE args " " with
  | [a, b] =>
    match a.toNat?, b.toNat? with
    | some a, some b =>
      let q := match dispatch a b with
        | .ok (.singleState, ps) => s!"ok:single:{showPairs ps}"
        | .ok (.pairs, ps) => s!"ok:pairs:{showPairs ps}"
        | .error e => s!"err:{showBatchErr e}"
      let c := match coreDispatch a b with
        | .ok ps => s!"ok:{showPairs ps}"
        | .error e => s!"err:{showBatchErr e}"
      s!"{q} core={c}"
    | _, _ => "bad-request"
  | _ => "bad-request"

/-! ### estimator sessions on computational basis states -/

abbrev BState := Nat × Nat

/-- ⟨b|P|b⟩ -/
def evBasis (st : BState) (l : Label) : Int :=
  if l.any (fun x => x.2 == 1 || x.2 == 2) then 0
  else l.foldl (fun s x => if x.2 == 3 && st.2.testBit x.1 then -s else s) 1

def parseState (s : String) : Option BState :=
  match s.splitOn "." with
  | [n, b] => do let n ← (trim n).toNat?; let b ← (trim b).toNat?; pure (n, b)
  | _ => none

def showEstimates (rs : List Estimate) : String :=
  join "," (rs.map fun r => s!"{showCoef r.value}e{r.error}")

def sessionCmd (args : String) : String :=
  let calls := (splitNE args "@@").mapM fun c =>
    match c.splitOn "~" with
    | [k, os, ss] => do
      let os ← (splitNE os "&").mapM parseEst
      let ss ← (splitNE ss "&").mapM parseState
      pure (trim k, os, ss)
    | _ => none
  match calls with
  | none => "bad-request"
  | some calls =>
    let nq : BState → Nat := fun s => s.1
    let dflt : BState := (0, 0)
    let rec go (c : Cache) : List (String × List Estimatable × List BState) → List String
      | [] => []
      | (k, os, ss) :: rest =>
        let r : Except EstErr (Cache × List Estimate) :=
          if k == "one" then
            match os, ss with
            | [e], [s] =>
              match estimateOne evBasis nq c e s with
              | .ok (c', r) => .ok (c', [r])
              | .error x => .error (.conv x)
            | _, _ => .error (.batch .mismatch)
          else if k == "core" then coreConcurrentEstimate evBasis nq dflt c os ss
          else concurrentEstimate evBasis nq dflt c os ss
        match r with
        | .ok (c', rs) => s!"ok:{showEstimates rs}~{c'.length}" :: go c' rest
        | .error (.batch e) => s!"err:ValueError:{showBatchErr e}" :: go c rest
        | .error (.conv _) => ["err:IndexError"]   -- an IndexError call ends the session
    join "@@" (go [] calls)

/-! ### general estimator -/

def generalCmd (args : String) : String :=
  match splitNE args " " with
  | [o, s, p] =>
    let o? : Option OpArg := if o == "S" then some .single else ((o.drop 1).toString.toNat?).map .seq
    let s? : Option StateArg := if s == "S" then some .single else ((s.drop 1).toString.toNat?).map .seq
    let p? : Option ParamArg :=
      if p == "N" then some .none else if p == "E" then some .empty
      else if p.startsWith "F" then ((p.drop 1).toString.toNat?).map .flat
      else if p.startsWith "V" then ((p.drop 1).toString.toNat?).map .nested else none
    match o?, s?, p? with
    | some o, some s, some p =>
      match generalCall o s p with
      | .ok .estimator => "ok:estimator"
      | .ok (.concurrent k m) => s!"ok:concurrent:{k}:{m}"
      | .ok .parametric => "ok:parametric"
      | .ok (.concurrentParametric c) => s!"ok:concurrentParametric:{c}"
      | .error .assertion => "err:AssertionError"
      | .error .stopIteration => "err:StopIteration"
    | _, _, _ => "bad-request"
  | _ => "bad-request"

/-! ### parametric -/

def parseInts (s : String) : Option (List Int) := (splitNE s ",").mapM (·.toInt?)

def parseLin (s : String) : Option Lin :=
  match s.splitOn "+" with
  | [cs, k] => do let cs ← parseInts cs; let k ← (trim k).toInt?; pure ⟨cs, k⟩
  | _ => none

def parsePC (s : String) : Option PCirc :=
  let t := trim s
  if t.startsWith "U" then ((t.drop 1).toString.toNat?).map .unbound
  else if t.startsWith "L" then
    match ((t.drop 1).toString).splitOn ":" with
    | [k, outs] => do let k ← (trim k).toNat?; let outs ← (splitNE outs ";").mapM parseLin; pure (.linear k outs)
    | _ => none
  else none

def showPErr : PErr → String
  | .valueError => "ValueError" | .indexError => "IndexError" | .keyError => "KeyError"

def showAngles : Except PErr (List Int) → String
  | .ok v => s!"ok:{showInts v}"
  | .error e => s!"err:{showPErr e}"

def paramCmd (args : String) : String :=
  match args.splitOn "|" with
  | [pc, ps] =>
    match parsePC pc, (splitNE ps ";").mapM (fun x => if x == "_" then some [] else parseInts x) with
    | some pc, some ps =>
      join " " (ps.map fun p =>
        s!"mapper={showAngles (qulacsMapper pc p)}~par={showAngles (parametricBackendAngles pc p)}~bind={showAngles (bindAngles pc p)}~bound={showAngles (boundBackendAngles pc p)}")
    | _, _ => "bad-request"
  | _ => "bad-request"

def compiledCmd (args : String) : String :=
  match args.splitOn "|" with
  | [pc, ps] =>
    match parsePC pc, (splitNE ps ";").mapM (fun x => if x == "_" then some [] else parseInts x) with
    | some pc, some ps => join " " ((Compiled.run Compiled.call (compile pc) ps).map showAngles)
    | _, _ => "bad-request"
  | _ => "bad-request"

/-! ### stim / sparse -/

def stimCmd (args : String) : String :=
  match splitNE args " " with
  | [l, n] =>
    match parseLabel l, n.toNat? with
    | some l, some n =>
      match stimIndices l n with
      | some ids => s!"ok:{showNats ids}"
      | none => "err:IndexError"
    | _, _ => "bad-request"
  | _ => "bad-request"

def showSparseErr : SparseErr → String
  | .assertion => "AssertionError" | .typeError => "TypeError" | .valueError => "ValueError"

def sparseCmd (args : String) : String :=
  match splitNE args " " with
  | [e, n] =>
    let n? : Option (Option Nat) := if n == "none" then some none else (n.toNat?).map some
    match parseEst e, n? with
    | some e, some n? =>
      match sparseMatrix e n? with
      | .error x => s!"err:{showSparseErr x}"
      | .ok (d, f) =>
        let ent := (List.range d).flatMap fun r => (List.range d).map fun c => showCoef (f r c)
        s!"ok:{d}:{join "," ent}"
    | _, _ => "bad-request"
  | _ => "bad-request"

def histCmd (args : String) : String :=
  let ops := (splitNE args ";").mapM fun o =>
    match o.splitOn ":" with
    | ["g", l, n] => do let l ← parseLabel l; let n ← (trim n).toNat?; pure (SparseOp.get l n)
    | ["s", i, k] => do let i ← (trim i).toNat?; let k ← (trim k).toInt?; pure (SparseOp.scale i k)
    | _ => none
  match ops with
  | none => "bad-request"
  | some ops =>
    let s := SparseSession.run ⟨SparseTable.init, []⟩ ops
    let hs := s.handles.map fun h =>
      match h with
      | .fresh k _ _ => s!"fresh:{k}"
    s!"{join "," hs} table={s.table.fx},{s.table.fy},{s.table.fz}"

def dispatch (line : String) : String :=
  let l := trim line
  match l.splitOn " " with
  | cmd :: rest =>
    let args := " ".intercalate rest
    match cmd with
    | "c04cache" => cacheCmd args
    | "c04batch" => batchCmd args
    | "c04session" => sessionCmd args
    | "c04general" => generalCmd args
    | "c04param" => paramCmd args
    | "c04compiled" => compiledCmd args
    | "c04stim" => stimCmd args
    | "c04sparse" => sparseCmd args
    | "c04hist" => histCmd args
    | _ => "bad-request"
  | [] => "bad-request"

end QV.Driver.C04
