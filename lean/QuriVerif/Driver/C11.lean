import QuriVerif.Model.C11
/-
  C11 — line-protocol front end of the executable model (not part of any theorem).

    c11chunks <n> <c>                      chunks of [0..n) and the chained result, executor given
    c11with <none|thread|process> <c> <0|1 shippable> <n>
    c11disc <k=v,..> | <task;task;..>      the three conjuncts of `disciplined`
    c11sched <k=v,..> | <tasks> | <t,t,..> run a schedule: completeness and per-task outputs

  task  = instr,instr,..      instr = s:dst:v | a:dst:f:x:y | l:dst:key | p:key:src | e:src
-/
namespace QV.Driver.C11
open QV.C11

def nat? (s : String) : Option Nat := s.trimAscii.toString.toNat?
def int? (s : String) : Option Int := s.trimAscii.toString.toInt?

def showNats (xs : List Nat) : String := ",".intercalate (xs.map toString)
def showInts (xs : List Int) : String := ",".intercalate (xs.map toString)

def isBlank (s : String) : Bool := s.trimAscii.toString.isEmpty

def parseInstr (s : String) : Option Instr :=
  match s.trimAscii.toString.splitOn ":" with
  | ["s", d, v] => do some (.set (← nat? d) (← int? v))
  | ["a", d, f, x, y] => do some (.app (← nat? d) (← nat? f) (← nat? x) (← nat? y))
  | ["l", d, k] => do some (.lookup (← nat? d) (← nat? k))
  | ["p", k, src] => do some (.publish (← nat? k) (← nat? src))
  | ["e", src] => do some (.emit (← nat? src))
  | _ => none

def parseTask (s : String) : Option (List Instr) :=
  if isBlank s then some [] else (s.splitOn ",").mapM parseInstr

def parseTasks (s : String) : Option (List (List Instr)) :=
  if isBlank s then some [] else (s.splitOn ";").mapM parseTask

def parseTable (s : String) : Option (List (Nat × Int)) :=
  if isBlank s then some [] else
  (s.splitOn ",").mapM fun kv =>
    match kv.splitOn "=" with
    | [k, v] => do some ((← nat? k), (← int? v))
    | _ => none

def semOf (tbl : List (Nat × Int)) : Sem :=
  { prim := fun f x y => (f : Int) + 2 * x + 3 * y, build := fun k => (tbl.lookup k).getD (-1) }

def b2s (b : Bool) : String := if b then "1" else "0"

def chunksCmd (args : String) : String :=
  match (args.splitOn " ").filter (fun x => !isBlank x) with
  | [n, c] =>
    match nat? n, int? c with
    | some n, some c =>
      let xs := List.range n
      let ch := chunksI xs c
      let out := executeConcurrently (fun (_ : Unit) (l : List Nat) => l) () xs (some ()) c
      s!"k={ch.length} chunks={";".intercalate (ch.map showNats)} out={showNats out}"
    | _, _ => "bad-request"
  | _ => "bad-request"

def withCmd (args : String) : String :=
  match (args.splitOn " ").filter (fun x => !isBlank x) with
  | [ex, c, sh, n] =>
    let ex? : Option (Option Executor) :=
      match ex with
      | "none" => some none
      | "thread" => some (some .thread)
      | "process" => some (some .process)
      | _ => none
    match ex?, int? c, nat? sh, nat? n with
    | some ex, some c, some sh, some n =>
      match executeWith (fun (_ : Unit) (l : List Nat) => l) () (List.range n) ex c (sh != 0) with
      | .ok rs => s!"ok:{showNats rs}"
      | .raises => "raises"
    | _, _, _, _ => "bad-request"
  | _ => "bad-request"

def discCmd (args : String) : String :=
  match args.splitOn "|" with
  | [tbl, tasks] =>
    match parseTable tbl, parseTasks tasks with
    | some tbl, some ps =>
      let S := semOf tbl
      let m0 : Nat → Int := fun _ => 0
      s!"private={b2s (isPrivate ps)} publish={b2s (ps.all fun p => publishOK S p m0)} frozen={b2s (ps.all frozenAfterPublish)} disciplined={b2s (disciplined S ps m0)}"
    | _, _ => "bad-request"
  | _ => "bad-request"

def schedCmd (args : String) : String :=
  match args.splitOn "|" with
  | [tbl, tasks, sched] =>
    match parseTable tbl, parseTasks tasks with
    | some tbl, some ps =>
      let S := semOf tbl
      let sc := if isBlank sched then [] else (sched.splitOn ",").filterMap nat?
      let fin := runSched S sc (init ps (fun _ => 0) [] (fun _ => []))
      let outs := (List.range ps.length).map fun t => showInts (fin.st.out t)
      let solo := (List.range ps.length).map fun t => showInts (iout S (progOf ps t) (fun _ => 0))
      s!"complete={b2s (complete ps.length fin)} out={"/".intercalate outs} solo={"/".intercalate solo} cacheok={b2s (cacheOK S fin.st.cache)}"
    | _, _ => "bad-request"
  | _ => "bad-request"

def dispatch (line : String) : String :=
  let l := line.trimAscii.toString
  match l.splitOn " " with
  | cmd :: rest =>
    let args := " ".intercalate rest
    match cmd with
    | "c11chunks" => chunksCmd args
    | "c11with" => withCmd args
    | "c11disc" => discCmd args
    | "c11sched" => schedCmd args
    | _ => "bad-request"
  | [] => "bad-request"

end QV.Driver.C11
