import QuriVerif.Model.C16
import QuriVerif.Driver.Util
/-
  C16 line protocol (front end of Model/C16.lean; not part of any theorem).

    gate      := <Kind>/<targets>/<controls>/<paulis>/<tag>          (comma lists; tag: natural number)
    gates     := gate+gate+…                                          (may be empty)
    seq       := L | C<m>                                             (gate list | circuit object on m qubits)

    c16mk    <n> <bits>
    c16track <n> <bits> <phase> | <seq> | <gates>                     with_gates_applied on a basis state
    c16pauli <n> <bits> <phase> | <gate>                              with_pauli_gate_applied
    c16sup   <n> <bits> <phase> | <n> <bits> <phase>                  comp_basis_superposition
    c16low   <x>                                                      lowest_bit_index
    c16hist  <op>;<op>;…        op := mk n bits | vec n vid | derive src seq gates | pauli src gate | touch src | sup a b
    c16run   <emitted gates>                                          sparse semantics on |0…0⟩
      emitted gate := <Kind>/<targets>/<paulis>/<cθ>:<cφ>:<k>  (angle cθ·θ + cφ·φ + k·π/4; empty for X)
-/
namespace QV.Driver.C16
open QV QV.C16

def trim (s : String) : String := s.trimAscii.toString

def splitNE (s : String) (sep : String) : List String :=
  let t := trim s
  if t.isEmpty then [] else (t.splitOn sep).map trim

def parseNats (s : String) : Option (List Nat) := (splitNE s ",").mapM (·.toNat?)

def join (sep : String) (xs : List String) : String := sep.intercalate xs
def showNats (xs : List Nat) : String := join "," (xs.map toString)

def parseGate (s : String) : Option RGate :=
  match s.splitOn "/" with
  | [k, t, c, p, tag] => do
    let k ← Kind.ofName? (trim k)
    let t ← parseNats t; let c ← parseNats c; let p ← parseNats p
    let tag ← (trim tag).toNat?
    pure { kind := k, targets := t, controls := c, paulis := p, tag := tag }
  | _ => none

def parseGates (s : String) : Option (List RGate) := (splitNE s "+").mapM parseGate

def parseSeq (kind : String) (gs : List RGate) : Option GateSeq :=
  let k := trim kind
  if k == "L" then some (.gates gs)
  else if k.startsWith "C" then (k.drop 1).toNat?.map fun m => .circuit m gs
  else none

def showAngle (a : Angle) : String :=
  s!"{a.cs.getD 0 0}:{a.cs.getD 1 0}:{a.k}"

def showGate (g : RGate) : String :=
  s!"{g.kind.name}/{showNats g.targets}/{showNats g.controls}/{showNats g.paulis}/{g.tag}/{join "," (g.params.map showAngle)}"

def showGates (gs : List RGate) : String := join "+" (gs.map showGate)

def showCB (s : CB) : String := s!"cb {s.n} {s.bits} {s.phase}"

def parseCB (s : String) : Option CB :=
  match splitNE s " " with
  | [n, b, p] => do
    let n ← n.toNat?; let b ← b.toNat?; let p ← p.toInt?
    pure ⟨n, b, p⟩
  | _ => none

def showErr (e : Err) : String := s!"err {e.name}"

def mk (args : String) : String :=
  match splitNE args " " with
  | [n, b] =>
    match n.toNat?, b.toInt? with
    | some n, some b =>
      match mkCB n b with
      | .ok s => showCB s
      | .error e => showErr e
    | _, _ => "bad-request"
  | _ => "bad-request"

def showDerived : Except Err Derived → String
  | .error e => showErr e
  | .ok (.cb s) => showCB s
  | .ok (.gen n gs) => s!"gen {n} | {showGates gs}"

def trackCmd (args : String) : String :=
  match args.splitOn "|" with
  | [st, sk, gs] =>
    match parseCB st, parseGates gs with
    | some s, some gs =>
      match parseSeq sk gs with
      | some seq => showDerived (withGatesApplied s seq)
      | none => "bad-request"
    | _, _ => "bad-request"
  | _ => "bad-request"

def pauliCmd (args : String) : String :=
  match args.splitOn "|" with
  | [st, g] =>
    match parseCB st, parseGate (trim g) with
    | some s, some g =>
      match addPauli s g with
      | .ok s' => showCB s'
      | .error e => showErr e
    | _, _ => "bad-request"
  | _ => "bad-request"

def supCmd (args : String) : String :=
  match args.splitOn "|" with
  | [a, b] =>
    match parseCB a, parseCB b with
    | some sa, some sb =>
      match supCircuit sa sb with
      | .ok gs => s!"ok {sa.n} | {showGates gs}"
      | .error e => showErr e
    | _, _ => "bad-request"
  | _ => "bad-request"

def lowCmd (args : String) : String :=
  match (trim args).toNat? with
  | some x => match lowestBitIndex x with | .ok i => s!"ok {i}" | .error e => showErr e
  | none => "bad-request"

def parseOp (s : String) : Option Op :=
  match splitNE s " " with
  | ["mk", n, b] => do let n ← n.toNat?; let b ← b.toInt?; pure (.mk n b)
  | ["vec", n, v] => do let n ← n.toNat?; let v ← v.toNat?; pure (.mkVec n v)
  | ["derive", src, sk] => do let src ← src.toNat?; let seq ← parseSeq sk []; pure (.derive src seq)
  | ["derive", src, sk, gs] => do
    let src ← src.toNat?; let gs ← parseGates gs; let seq ← parseSeq sk gs; pure (.derive src seq)
  | ["pauli", src, g] => do let src ← src.toNat?; let g ← parseGate g; pure (.pauli src g)
  | ["touch", src] => do let src ← src.toNat?; pure (.touch src)
  | ["sup", a, b] => do let a ← a.toNat?; let b ← b.toNat?; pure (.sup a b)
  | _ => none

def showSt : St → String
  | .cb s c => s!"{showCB s} {if c.isSome then 1 else 0} {showGates (St.cb s c).obs.gates}"
  | .gen n gs => s!"gen {n} {showGates gs}"
  | .vec n v gs => s!"vec {n} {v} {showGates gs}"

def histCmd (args : String) : String :=
  match (splitNE args ";").mapM parseOp with
  | none => "bad-request"
  | some ops =>
    let rec go (st : List St) (ops : List Op) (acc : List String) : List String :=
      match ops with
      | [] => acc.reverse
      | op :: r =>
        let (st', e) := step st op
        let status := match e with | none => "ok" | some e => showErr e
        go st' r (s!"{status} | {join " ~ " (st'.map showSt)}" :: acc)
    join " # " (go [] ops [])

def parseAngle (s : String) : Option Angle :=
  match (trim s).splitOn ":" with
  | [a, b, k] => do
    let a ← (trim a).toInt?; let b ← (trim b).toInt?; let k ← (trim k).toInt?
    pure ⟨Exps.trim [a, b], k⟩
  | _ => none

def parseEmitted (s : String) : Option RGate :=
  match s.splitOn "/" with
  | [k, t, p, a] => do
    let k ← Kind.ofName? (trim k)
    let t ← parseNats t; let p ← parseNats p
    let ps ← if (trim a).isEmpty then some [] else (parseAngle a).map fun x => [x]
    pure { kind := k, targets := t, paulis := p, params := ps }
  | _ => none

def runCmd (args : String) : String :=
  match (splitNE args "+").mapM parseEmitted with
  | none => "bad-request"
  | some gs =>
    match runS gs ket0 with
    | none => "unsupported"
    | some v => s!"{scaleS gs} | " ++ join " " (v.map fun t => s!"{t.1}={QV.Driver.polyToStr t.2}")

def dispatch (line : String) : String :=
  let l := trim line
  match l.splitOn " " with
  | cmd :: rest =>
    let args := " ".intercalate rest
    match cmd with
    | "c16mk" => mk args
    | "c16track" => trackCmd args
    | "c16pauli" => pauliCmd args
    | "c16sup" => supCmd args
    | "c16low" => lowCmd args
    | "c16hist" => histCmd args
    | "c16run" => runCmd args
    | _ => "bad-request"
  | [] => "bad-request"

end QV.Driver.C16
