import QuriVerif.Driver.C06
/-
  Line-protocol front end to the executable C06 model only (so that the C06 check does not depend on the
  generated files of other properties):  lake env lean --run DriverC06.lean < requests > responses
-/
open QV QV.Driver

def dispatchC06 (line : String) : String :=
  match line.trimAscii.toString.splitOn " " with
  | cmd :: rest =>
    let args := " ".intercalate rest
    match cmd with
    | "c06conj" => c06conj args
    | _ => "bad-request"
  | [] => "bad-request"

partial def loop (h : IO.FS.Stream) : IO Unit := do
  let line ← h.getLine
  if line.isEmpty then return ()
  IO.println ("> " ++ dispatchC06 line.trimAscii.toString)
  loop h

def main : IO Unit := do
  loop (← IO.getStdin)
